package main

// C01 — every accepted input has a valid derivation (parser soundness).
// Decided: the four agreements without which a reduction sequence cannot be a derivation — table-encoding
// writer/reader agreement, the reduce discipline (pop |rhs|, push lhs, goto from the exposed state), rule
// numbering lockstep and symbol numbering lockstep.

import (
	"fmt"
	"go/ast"
	"go/token"
	"go/types"
	"strings"
)

func init() { register("C01", checkC01) }

func checkC01(c *Ctx, r *Report) {
	r.Explanation = "Writer side (LALR.CheckAndResolveConflict / GenTable): a REDUCE action's index is the arithmetic negation of the rule number, a SHIFT action's the target state; the cell is that index, the accept code for index 0, the pre-filled error code for ERROR. Reader side (every Go skeleton's driver, the TypeScript driver by tokens): error/accept codes are tested before the sign test, positive → push with state = a, otherwise ReduceFunc(−a) with exactly one negation. Reduce discipline from the builders' shapes and the skeleton: case i pushes LeftPart.ID of rule i, window and pop count are len(RighPart) of the same rule, the goto lookup is made on the top re-read after ReduceFunc with the reduced symbol, its result becomes the pushed state. Rule numbering: one rule inserted before the loop over the user's rules and one per iteration unconditionally; GetRules(i−1) everywhere. Symbol numbering: ID = position in G.Symbols = table column. Not decided: that automaton and lookaheads are right (C09, C03), conflicts, the user's lexer and actions, any particular input."
	r.Assumptions = append(r.Assumptions, "the automaton is canonical and the lookaheads are LALR(1) (C09, C03)", "the table reaches the generated parser unchanged (C02, C05)")
	st := c.GetStaged()
	stagedErrors(r, "C01", st)
	c01a(c, r, st)
	c01b(c, r, st)
	c01c(c, r, st)
	c01d(c, r)
	// C01.e prerequisites, evaluated here as well: a wrong goto target or a duplicate/missing state (C09) or a
	// packed lookup that differs from the dense table (C05) makes the driver perform reductions that are no derivation
	includePrereq(c, r, "C01.e", checkC09)
	includePrereq(c, r, "C01.e", checkC05)
	c01StartSymbolFlow(c, r, "C01.c")
	c01StackPrimitives(c, r, "C01.b", c.GetStaged())
	c01StackPrimitivesTS(c, r, "C01.b", c.GetStaged())
	// the states on the stack must be those this parse pushed (nested parses through PushContex/PopContex)
	c15FreshStackAll(r, "C01.e←C15.c", c.GetStaged())
	// a lexer code may select a terminal's column only: a code translated to a nonterminal's column reads a goto
	// entry as a shift and the parser accepts a string that contains no such derivation
	includeSome(r, "C01.e", func(sub *Report) { c11c(c, sub, c.GetStaged()) }, "buildTranslate")
	// "the grammar that was given to yaccgo": the rules the automaton is built from are the rules of the file — every
	// alternative and symbol, in order, with the declared start symbol (C10.c), read by a lexer that neither drops nor
	// merges text (C10.d). A rule read differently makes every derivation a derivation of another grammar
	includeClauses(c, r, "C01.e", checkC10, "C10.c", "C10.d")
	// the entry a reduction pushes carries the left-hand side from the moment the case stores it until PushStateSym
	// copies it; the user's action runs in between and may start a nested parse (PushContex … Parser … PopContex)
	// whose reductions go through the same ReduceFunc: the entry must be storage of this reduction alone (C07.b)
	includeSome(r, "C01.e", func(sub *Report) { checkC07(c, sub) }, "fresh-$$-entry", "$$-only-the-action-fills-it")
	// the accept code is a cell value like the shift targets: it stands for "accept" only if no state number can
	// equal it (C06.b: number of states + a positive constant, different from the error code)
	includeSome(r, "C01.e", func(sub *Report) { c06b(c, sub) }, "GenAcceptCode", "GenErrorCode")
}

func c01a(c *Ctx, r *Report, st *Staged) {
	const clause = "C01.a"
	// writer: REDUCE index = -rule, SHIFT index = tr.to
	sign, why := reduceSign(c)
	f := c.need(r, clause, "LALR", "LALR1", "CheckAndResolveConflict")
	if f != nil {
		r.Check(sign == -1, clause, "R1 ENCODING", f.Name+"/REDUCE-index-is-negated-rule", c.pos(f.Decl.Pos()),
			"a REDUCE action carries −(rule number)", "a REDUCE action's index is not the arithmetic negation of the rule number ("+why+"): the driver's ReduceFunc(−a) would select another rule")
		info := f.Pkg.TypesInfo
		shiftOK, ruleOK := false, false
		pc := pathCtxFor(f)
		at, _ := mustConsts(c, r, clause, "LALR", "SHIFT", "REDUCE")
		ast.Inspect(f.Decl.Body, func(n ast.Node) bool {
			cl, ok := n.(*ast.CompositeLit)
			if !ok {
				return true
			}
			fields := map[string]ast.Expr{}
			for _, el := range cl.Elts {
				if kv, ok := el.(*ast.KeyValueExpr); ok {
					if k, ok := kv.Key.(*ast.Ident); ok {
						fields[k.Name] = kv.Value
					}
				}
			}
			v := constOf(info, fields["ActionType"])
			if v == nil || at == nil {
				return true
			}
			if v.ExactString() == at["SHIFT"].ExactString() && fields["ActionIndex"] != nil {
				shiftOK = strings.HasSuffix(pc.path(fields["ActionIndex"]), ".to")
			}
			if v.ExactString() == at["REDUCE"].ExactString() && fields["ActionIndex"] != nil {
				p := pc.path(fields["ActionIndex"])
				ruleOK = strings.Contains(p, "sym_or_rule &")
			}
			return true
		})
		r.Check(shiftOK && ruleOK, clause, "R1 ENCODING", f.Name+"/action-index-sources", c.pos(f.Decl.Pos()),
			"SHIFT index ← the transition's target state; REDUCE index ← the reduce transition's rule number (mask applied)",
			fmt.Sprintf("action indices do not come from the transition (SHIFT←tr.to: %v, REDUCE←tr.sym_or_rule&Mask: %v)", shiftOK, ruleOK))
	}
	if g := c.need(r, clause, "LALR", "LALR1", "GenTable"); g != nil {
		res := analyseGenTableCells(c, g)
		if res.err != "" {
			r.Undecided(clause, "R4 DECISION-TABLE", g.Name+"/cell-writer", c.pos(g.Decl.Pos()), res.err)
		} else {
			ok := res.prefillIsErrorCode && res.errorLeavesPrefill && res.nonErrorStoresIndex && res.zeroStoresAccept && res.keyIsRangeKey
			r.Check(ok, clause, "R4 DECISION-TABLE", g.Name+"/cell-writer", c.pos(res.pos),
				fmt.Sprintf("%d paths: cell[sym] = action index; index 0 (reduce by rule 0) → accept code; ERROR → untouched pre-filled error code", res.paths),
				fmt.Sprintf("cell writer deviates (prefill=error code: %v, ERROR untouched: %v, non-zero index stored: %v, zero → accept code: %v)", res.prefillIsErrorCode, res.errorLeavesPrefill, res.nonErrorStoresIndex, res.zeroStoresAccept))
		}
		// coverage of the grouping loop: every state × every transition with tr.q == q
		info := g.Pkg.TypesInfo
		okGroup := false
		ast.Inspect(g.Decl.Body, func(n ast.Node) bool {
			rs, ok := n.(*ast.RangeStmt)
			if !ok {
				return true
			}
			if fv := fieldVar(info, rs.X); fv == nil || fv.Name() != "LR0Closure" {
				return true
			}
			pe := newPathEnum(info)
			ast.Inspect(rs.Body, func(m ast.Node) bool {
				inner, ok := m.(*ast.RangeStmt)
				if !ok {
					return true
				}
				if fv := fieldVar(info, inner.X); fv == nil || fv.Name() != "trans" {
					return true
				}
				paths, err := pe.Enumerate(inner.Body.List)
				if err != nil {
					return true
				}
				good := len(paths) == 2
				for _, p := range paths {
					stores := 0
					for _, e := range p.Effects {
						if e.Kind == "store" {
							stores++
						}
					}
					eq := false
					for _, cd := range p.Conds {
						if strings.HasSuffix(normCond(Cond{cd.Atom, true}), ".q") || strings.Contains(normCond(Cond{cd.Atom, true}), ".q ==") {
							eq = cd.Pol
						}
					}
					if eq != (stores == 1) {
						good = false
					}
				}
				okGroup = good
				return true
			})
			return true
		})
		if !okGroup && groupsByOwnSource(c, g) {
			okGroup = true
		}
		r.Check(okGroup, clause, "R2 COVERAGE", g.Name+"/transitions-grouped-by-state", c.pos(g.Decl.Pos()),
			"every transition is appended to the group of its source state, and only to it",
			"the grouping loop does not append every transition exactly to the group of its own source state (tr.q == q)")
	}
	// the accept cell (reduce by rule 0) exists on the end marker only
	c03EndMarker(c, r, clause)
	// reader: all four Go skeletons
	for _, sk := range quickSkeletons(st) {
		ir, err := goDriverIR(sk)
		name := "skeleton " + sk.V.Name + "/Parser"
		if err != "" {
			r.Undecided(clause, "R4 DRIVER", name, sk.pos(token.NoPos), err)
			continue
		}
		bad := ""
		if ir.order != "error? accept? shift?" {
			bad = "the action is classified in the order `" + ir.order + "`; both codes are positive, so they must be excluded before the sign test"
		}
		if !strings.HasPrefix(ir.classes["shift"], "push(state=a,sym=look,") {
			bad = "a positive action is not pushed as the new state with the lookahead's symbol: " + ir.classes["shift"]
		}
		if !strings.HasPrefix(ir.classes["reduce"], "reduce(-a)") {
			bad = "a negative action is not reduced by rule −a (exactly one negation): " + ir.classes["reduce"]
		}
		r.Check(bad == "", clause, "R4 DRIVER", name+"/decodes-cells-as-written", sk.pos(token.NoPos),
			"reader = inverse of the writer: error/accept codes first, a > 0 → shift to state a, else reduce by rule −a", bad)
	}
	if st.TS != nil && st.TS.LexEr == "" {
		ir, err := tsDriverIR(st.TS)
		if err != "" {
			r.Undecided(clause, "TS DRIVER", "typescript/Parser", "Builder/TsGenCode.go", err)
		} else {
			bad := ""
			if ir.order != "error? accept? shift?" {
				bad = "classification order `" + ir.order + "`"
			}
			if !strings.HasPrefix(ir.classes["shift"], "push(state=a,sym=look,") || !strings.HasPrefix(ir.classes["reduce"], "reduce(-a)") {
				bad = fmt.Sprintf("shift `%s`, reduce `%s`", ir.classes["shift"], ir.classes["reduce"])
			}
			r.Check(bad == "", clause, "TS DRIVER", "typescript/Parser/decodes-cells-as-written", "Builder/TsGenCode.go (StateFunc literal)",
				"TypeScript reader: codes first, action > 0 → new StateSym(action, lookAhead), else ReduceFunc(-action) (token-level)", bad)
		}
	}
}

func c01b(c *Ctx, r *Report, st *Staged) {
	const clause = "C01.b"
	type backend struct {
		name string
		sh   Shape
		pos  token.Pos
	}
	var bs []backend
	if sc := configOf(st, "go/global/dense"); sc != nil {
		sh, pos := fieldShapeOf(sc.Eval, "ReduceFunc")
		bs = append(bs, backend{"Builder.(*TemplateBuilder).buildReduceFunc", sh, pos})
	}
	if sc := configOf(st, "go/object/packed"); sc != nil {
		sh, pos := fieldShapeOf(sc.Eval, "ReduceFunc")
		bs = append(bs, backend{"Builder.(*TemplateBuilder).buildReduceFunc[object]", sh, pos})
	}
	if st.TS != nil && st.TS.Eval != nil {
		sh, pos := fieldShapeOf(st.TS.Eval, "ReduceFunc")
		bs = append(bs, backend{"Builder.(*TsBuilder).buildReduceFunc", sh, pos})
	}
	for _, b := range bs {
		if b.sh == nil {
			r.Undecided(clause, "R1 PROVENANCE", b.name, "Builder", "no ReduceFunc shape")
			continue
		}
		roles := reduceFuncRoles(b.sh)
		want := map[string]string{
			"case-label":    "$i",
			"pushed-symbol": "recv.vnode.LALR1.G.ProductoinRules[$i].LeftPart.ID",
			"window-start":  "len(recv.vnode.LALR1.G.ProductoinRules[$i].RighPart)",
			"pop-count":     "len(recv.vnode.LALR1.G.ProductoinRules[$i].RighPart)",
		}
		descr := map[string]string{
			"case-label":    "the case label is the rule index i",
			"pushed-symbol": "the pushed symbol is the left-hand side of rule i (its ID = table column)",
			"window-start":  "the value window starts |rhs| of rule i below the top",
			"pop-count":     "|rhs| of rule i entries are popped",
		}
		for role, w := range want {
			got := roles[role]
			r.Check(got == w, clause, "R1 PROVENANCE", b.name+"/"+role, c.pos(b.pos), descr[role]+" ← "+shortPath(got),
				fmt.Sprintf("%s: filled from %q, required %q — the reduction would pop or push something that is not rule i's", descr[role], got, w))
		}
		// loop covers rules 1 … len-1
		rl := roles["rule-loop"]
		r.Check(rl == "$i from 1 below len(recv.vnode.LALR1.G.ProductoinRules)", clause, "R1 PROVENANCE", b.name+"/covers-all-user-rules", c.pos(b.pos),
			"one case per rule 1 … len(ProductoinRules)−1 (rule 0 is the accept rule)", "the case loop is `"+rl+"`, expected i from 1 below len(G.ProductoinRules)")
	}
	// driver: goto from the exposed state
	for _, sk := range quickSkeletons(st) {
		name := "skeleton " + sk.V.Name + "/Parser"
		ir, err := goDriverIR(sk)
		if err != "" {
			r.Undecided(clause, "R2 ORDER", name, sk.pos(token.NoPos), err)
			continue
		}
		want := "reduce(-a); goto(top,reduced.sym); push(reduced); reduced.state=goto"
		bad := ""
		if ir.classes["reduce"] != want {
			bad = "reduce branch is `" + ir.classes["reduce"] + "`, required `" + want + "`"
		}
		// the top used for the goto lookup is read after ReduceFunc (statement order in the reduce block)
		if why := gotoTopAfterReduce(sk); why != "" {
			bad = why
		}
		r.Check(bad == "", clause, "R2 ORDER", name+"/goto-from-exposed-state", sk.pos(token.NoPos),
			"after ReduceFunc (which pops |rhs|) the top of the stack is re-read, the goto lookup uses the reduced symbol, its result is stored into the entry before it is pushed", bad)
		// ReduceFunc: topIndex = pointer − 1, returns the entry built in the case
		rf := sk.FuncDecl(map[bool]string{true: "Context", false: ""}[sk.V.Object], "ReduceFunc")
		if rf != nil {
			why := reduceFuncFrame(sk, rf)
			r.Check(why == "", clause, "R13 AFFINE", "skeleton "+sk.V.Name+"/ReduceFunc/frame", sk.pos(rf.Pos()),
				"topIndex = stack pointer − 1; the function returns the entry its case filled in", "ReduceFunc does not define topIndex as pointer − 1 or does not return the entry it filled: "+why)
		}
	}
	if st.TS != nil && st.TS.LexEr == "" {
		ir, err := tsDriverIR(st.TS)
		if err == "" {
			want := "reduce(-a); goto(top,reduced.sym); push(reduced); reduced.state=goto"
			r.Check(ir.classes["reduce"] == want, clause, "TS DRIVER", "typescript/Parser/goto-from-exposed-state", "Builder/TsGenCode.go (StateFunc literal)",
				"TypeScript: ReduceFunc, re-read of the top, goto on SymTy.YySymIndex, state stored, push (token-level)", "reduce branch is `"+ir.classes["reduce"]+"`")
		}
	}
}

// gotoTopAfterReduce: in the reduce block of the driver, the receiver of the goto lookup is defined after the
// ReduceFunc call.
func gotoTopAfterReduce(sk *Skeleton) string {
	d := analyseDriver(sk)
	if d.err != "" {
		return d.err
	}
	info := sk.Info
	var reduceCall, gotoCall *ast.CallExpr
	ast.Inspect(d.loop.Body, func(n ast.Node) bool {
		if call, ok := n.(*ast.CallExpr); ok {
			if f := callee(info, call); f != nil {
				switch f.Name() {
				case "ReduceFunc":
					reduceCall = call
				case "Action":
					if len(call.Args) == 1 && strings.HasSuffix(printNode(sk.Fset, call.Args[0]), ".YySymIndex") {
						gotoCall = call
					}
				}
			}
		}
		return true
	})
	if reduceCall == nil || gotoCall == nil {
		return "no ReduceFunc call followed by a goto lookup"
	}
	if gotoCall.Pos() < reduceCall.Pos() {
		return "the goto lookup precedes ReduceFunc"
	}
	// receiver of the goto lookup
	se, ok := unparen(gotoCall.Fun).(*ast.SelectorExpr)
	if !ok {
		return "goto lookup is not a method call"
	}
	if id, ok := unparen(se.X).(*ast.Ident); ok {
		o := objOf(info, id)
		if di := defIdentIn(info, d.fn.Body, o); di == nil || di.Pos() < reduceCall.End() {
			// same variable as the first lookup: must be re-assigned after ReduceFunc
			reassigned := false
			ast.Inspect(d.loop.Body, func(n ast.Node) bool {
				if as, ok := n.(*ast.AssignStmt); ok && as.Pos() > reduceCall.End() && as.End() < gotoCall.Pos() {
					for _, l := range as.Lhs {
						if identObj(info, l) == o {
							reassigned = true
						}
					}
				}
				return true
			})
			if !reassigned {
				return "the goto lookup is made on the entry that was on top BEFORE the reduction (the state under the popped symbols is never consulted)"
			}
		}
	}
	return ""
}

func c01c(c *Ctx, r *Report, st *Staged) {
	const clause = "C01.c"
	f := c.need(r, clause, "Parser", "Walker", "BuildLALR1")
	if f == nil {
		return
	}
	info := f.Pkg.TypesInfo
	// InsertNewRules calls: before the loop over v.rules, and inside it
	var rulesLoop *ast.RangeStmt
	ast.Inspect(f.Decl.Body, func(n ast.Node) bool {
		if rs, ok := n.(*ast.RangeStmt); ok {
			if fv := fieldVar(info, rs.X); fv != nil && fv.Name() == "rules" {
				// the loop that builds the grammar's rules (other loops over the user's rules may only check them)
				inserts := false
				ast.Inspect(rs.Body, func(m ast.Node) bool {
					if call, ok := m.(*ast.CallExpr); ok {
						if fn := callee(info, call); fn != nil && fn.Name() == "InsertNewRules" {
							inserts = true
						}
					}
					return true
				})
				if inserts || rulesLoop == nil {
					rulesLoop = rs
				}
			}
		}
		return true
	})
	if rulesLoop == nil {
		r.Undecided(clause, "R3 LOCKSTEP", f.Name+"/rule-numbering", c.pos(f.Decl.Pos()), "no loop over the visitor's rules")
		return
	}
	pre, inLoop, post := 0, 0, 0
	ast.Inspect(f.Decl.Body, func(n ast.Node) bool {
		if call, ok := n.(*ast.CallExpr); ok {
			if fn := callee(info, call); fn != nil && fn.Name() == "InsertNewRules" {
				switch {
				case call.Pos() < rulesLoop.Pos():
					pre++
				case call.End() <= rulesLoop.End():
					inLoop++
				default:
					post++
				}
			}
		}
		return true
	})
	// unconditional in the loop: direct statement of the loop body, no continue/break before it
	uncond := false
	for _, s := range rulesLoop.Body.List {
		if es, ok := s.(*ast.ExprStmt); ok {
			if call, ok := es.X.(*ast.CallExpr); ok {
				if fn := callee(info, call); fn != nil && fn.Name() == "InsertNewRules" {
					uncond = true
				}
			}
		}
	}
	exits := false
	ast.Inspect(rulesLoop.Body, func(n ast.Node) bool {
		if br, ok := n.(*ast.BranchStmt); ok && (br.Tok == token.CONTINUE || br.Tok == token.BREAK) {
			exits = true
		}
		return true
	})
	ok := pre == 1 && inLoop == 1 && post == 0 && uncond && !exits
	r.Check(ok, clause, "R3 LOCKSTEP", f.Name+"/rule-numbering", c.pos(rulesLoop.Pos()),
		"exactly one rule (start → S) is inserted before the loop over the user's rules and exactly one per iteration, unconditionally: grammar rule i is user rule i−1",
		fmt.Sprintf("rule numbering is not 'one accept rule, then one grammar rule per user rule in order' (insertions before loop: %d, per iteration: %d, after: %d, unconditional: %v, early exits: %v)", pre, inLoop, post, uncond, exits))
	// the rule built in an iteration is built from that iteration's user rule
	fromSame := false
	el := identObj(info, rulesLoop.Value)
	ast.Inspect(rulesLoop.Body, func(n ast.Node) bool {
		if call, ok := n.(*ast.CallExpr); ok {
			if fn := callee(info, call); fn != nil && fn.Name() == "FindSymbolByName" && len(call.Args) == 1 {
				if root := rootObject(info, call.Args[0]); root == el && strings.Contains(exprString(call.Args[0]), "LeftPart") {
					fromSame = true
				}
			}
		}
		return true
	})
	r.Check(fromSame, clause, "R1 PROVENANCE", f.Name+"/rule-built-from-same-user-rule", c.pos(rulesLoop.Pos()),
		"the inserted rule's left-hand side is looked up from the iteration's own user rule", "the inserted rule is not built from the iteration's own user rule")
	// every GetRules(e) in the builders: e = i − (pre-loop insertions)
	type src struct {
		name string
		ev   *ShapeEval
	}
	var srcs []src
	if sc := configOf(st, "go/global/dense"); sc != nil {
		srcs = append(srcs, src{"go", sc.Eval})
	}
	if st.TS != nil && st.TS.Eval != nil {
		srcs = append(srcs, src{"typescript", st.TS.Eval})
	}
	for _, s := range srcs {
		n, bad := 0, ""
		for fv, sh := range s.ev.fields {
			for _, h := range holesOf(sh) {
				i := strings.Index(h.Path, "GetRules(")
				if i < 0 {
					continue
				}
				n++
				arg := h.Path[i+len("GetRules("):]
				if !strings.HasPrefix(arg, fmt.Sprintf("($i - %d))", pre)) {
					bad = fmt.Sprintf("field %s uses %s", fv.Name(), h.Path)
				}
			}
			for _, l := range loopsIn(sh) {
				if strings.Contains(l.Over, "GetRules(") && !strings.Contains(l.Over, fmt.Sprintf("GetRules(($i - %d))", pre)) {
					bad = fmt.Sprintf("field %s loops over %s", fv.Name(), l.Over)
				}
			}
		}
		r.Check(bad == "" && n > 0, clause, "R13 AFFINE", "Builder/"+s.name+"/GetRules-offset", "Builder",
			fmt.Sprintf("all %d uses of the visitor's rule list inside `case i` read GetRules(i − %d), the user rule that became grammar rule i", n, pre),
			fmt.Sprintf("the visitor's rule list is indexed with the wrong offset (%d rule(s) precede the user's in the grammar): %s", pre, bad))
	}
}

func c01d(c *Ctx, r *Report) {
	const clause = "C01.d"
	f := c.need(r, clause, "Parser", "Walker", "BuildLALR1")
	if f == nil {
		return
	}
	info := f.Pkg.TypesInfo
	// the identity loop: range over the concatenated identities, containing NewSymbol(uint(index), …)
	var loop *ast.RangeStmt
	ast.Inspect(f.Decl.Body, func(n ast.Node) bool {
		if rs, ok := n.(*ast.RangeStmt); ok {
			has := false
			ast.Inspect(rs.Body, func(m ast.Node) bool {
				if call, ok := m.(*ast.CallExpr); ok {
					if fn := callee(info, call); fn != nil && fn.Name() == "NewSymbol" {
						has = true
					}
				}
				return true
			})
			if has && loop == nil {
				loop = rs
			}
		}
		return true
	})
	if loop == nil {
		r.Undecided(clause, "R3 LOCKSTEP", f.Name+"/symbol-numbering", c.pos(f.Decl.Pos()), "no loop creating symbols")
		return
	}
	// insertions before the loop
	pre := 0
	ast.Inspect(f.Decl.Body, func(n ast.Node) bool {
		if call, ok := n.(*ast.CallExpr); ok && call.Pos() < loop.Pos() {
			if fn := callee(info, call); fn != nil && (fn.Name() == "InsertNewSymbol" || fn.Name() == "GenStartSymbol") {
				pre++
			}
		}
		return true
	})
	// counter: the variable passed (converted) to NewSymbol
	var counter types.Object
	ast.Inspect(loop.Body, func(n ast.Node) bool {
		if call, ok := n.(*ast.CallExpr); ok {
			if fn := callee(info, call); fn != nil && fn.Name() == "NewSymbol" && len(call.Args) == 2 {
				counter = rootObject(info, unwrapConv(call.Args[0]))
			}
		}
		return true
	})
	if counter == nil {
		r.Undecided(clause, "R3 LOCKSTEP", f.Name+"/symbol-numbering", c.pos(loop.Pos()), "NewSymbol's id is not a counter variable")
		return
	}
	initVal := int64(-99)
	ast.Inspect(f.Decl.Body, func(n ast.Node) bool {
		if as, ok := n.(*ast.AssignStmt); ok && as.Tok == token.DEFINE && len(as.Lhs) == 1 && identObj(info, as.Lhs[0]) == counter {
			if v, ok := constInt(info, as.Rhs[0]); ok {
				initVal = v
			}
		}
		return true
	})
	pe := newPathEnum(info)
	pe.rename[counter] = "IDX"
	paths, err := pe.Enumerate(loop.Body.List)
	if err != nil {
		r.Undecided(clause, "R3 LOCKSTEP", f.Name+"/symbol-numbering", c.pos(loop.Pos()), err.Error())
		return
	}
	bad := ""
	nIns := 0
	for _, p := range paths {
		news, inserts := 0, 0
		idArg := ""
		for _, e := range p.Effects {
			if e.Kind != "call" {
				continue
			}
			switch {
			case strings.HasSuffix(e.Term.Name, "Symbol.NewSymbol"):
				news++
				idArg = e.Term.Args[0].String()
			case strings.HasSuffix(e.Term.Name, "Grammar).InsertNewSymbol"):
				inserts++
			}
		}
		switch p.Kind {
		case "continue":
			if news+inserts > 0 {
				bad = "a skipped identifier still creates a symbol"
			}
			if t, ok := p.Env[counter]; ok && t.String() != "IDX" {
				bad = "the counter advances for an identifier that is skipped (`continue` after the increment): later symbols get ids that are not their position"
			}
		case "fall":
			nIns++
			if news != 1 || inserts != 1 {
				bad = fmt.Sprintf("an iteration creates %d symbols and inserts %d", news, inserts)
			}
			if idArg != "(IDX + 1)" {
				bad = "the new symbol's id is " + idArg + ", expected the counter after exactly one increment"
			}
			if t, ok := p.Env[counter]; !ok || t.String() != "(IDX + 1)" {
				bad = "the counter is not incremented exactly once per inserted symbol"
			}
		case "panic":
		default:
			bad = "unexpected loop exit " + p.Kind
		}
	}
	if nIns == 0 {
		bad = "no path inserts a symbol"
	}
	if int64(pre) != initVal+1 {
		bad = fmt.Sprintf("%d symbols are inserted before the loop but the counter starts at %d: the first created symbol would get id %d at position %d", pre, initVal, initVal+1, pre)
	}
	r.Check(bad == "", clause, "R3 LOCKSTEP", f.Name+"/symbol-numbering", c.pos(loop.Pos()),
		fmt.Sprintf("%d symbols (start, $) precede the loop, the counter starts at %d; every inserted identifier gets counter+1 and is appended once; skipped identifiers do not advance the counter: Symbol.ID = position in G.Symbols = table column", pre, initVal), bad)
	// InsertNewSymbol appends at the end
	if ins := c.need(r, clause, "Grammar", "Grammar", "InsertNewSymbol"); ins != nil {
		iinfo := ins.Pkg.TypesInfo
		ok := false
		ast.Inspect(ins.Decl.Body, func(n ast.Node) bool {
			if as, ok2 := n.(*ast.AssignStmt); ok2 && len(as.Lhs) == 1 && len(as.Rhs) == 1 {
				if fv := fieldVar(iinfo, as.Lhs[0]); fv != nil && fv.Name() == "Symbols" && isAppendSelf(iinfo, as.Lhs[0], as.Rhs[0]) {
					ok = true
				}
			}
			return true
		})
		r.Check(ok, clause, "R3 LOCKSTEP", ins.Name, c.pos(ins.Decl.Pos()), "appends the symbol at the end of G.Symbols", "does not append the symbol at the end of G.Symbols")
	}
	// the start symbol has id 0
	if gs := c.need(r, clause, "Grammar", "Grammar", "GenStartSymbol"); gs != nil {
		ginfo := gs.Pkg.TypesInfo
		ok := false
		ast.Inspect(gs.Decl.Body, func(n ast.Node) bool {
			if call, ok2 := n.(*ast.CallExpr); ok2 {
				if fn := callee(ginfo, call); fn != nil && fn.Name() == "NewSymbol" && len(call.Args) == 2 {
					if v, isC := constInt(ginfo, call.Args[0]); isC && v == 0 {
						ok = true
					}
				}
			}
			return true
		})
		r.Check(ok, clause, "R3 LOCKSTEP", gs.Name, c.pos(gs.Decl.Pos()), "the augmented start symbol gets id 0 and is inserted first", "the augmented start symbol is not created with id 0")
	}
}

func unwrapConv(e ast.Expr) ast.Expr {
	for {
		e = unparen(e)
		call, ok := e.(*ast.CallExpr)
		if !ok || len(call.Args) != 1 {
			return e
		}
		if _, isIdent := call.Fun.(*ast.Ident); !isIdent {
			return e
		}
		e = call.Args[0]
	}
}
