package main

// prop_flows.go — the must-flow tables (flow.go) of the properties whose data travels through the front end:
// tags and action text (C07), precedence (C04), token codes (C11), nullable marks (C03). Every line was confirmed
// by reading the function it names.

import (
	"go/ast"
	"go/types"
	"strings"
)

func c07Flows(c *Ctx, r *Report) {
	const cl = "C07.c"
	checkFlowLinks(c, r, []flowLink{
		{cl, "a union tag set on a grammar symbol is stored", "Symbol", "Symbol", "Tag", "(*Symbol).SetTag", []string{"=$"}, nil, true},
		{cl, "the tag written on a %token / %left line is merged into an identifier declared before", "Parser", "Idendity", "Tag", "(*astDeclareVistor).Process", []string{".IdentifyList).Tag"}, []string{"$ok", "] != nil", `.Tag != ""`}, true},
		{cl, "%type gives its tag to an identifier declared before", "Parser", "Idendity", "Tag", "(*astDeclareVistor).Process", []string{".TypeDefList).Tag"}, []string{"$ok", "] != nil"}, true},
		{cl, "%type creates the identifier with its tag when it is new", "Parser", "Idendity", "Tag", "(*astDeclareVistor).Process", []string{".TypeDefList).Tag"}, []string{"$ok", "] == nil"}, true},
		{cl, "the names after <tag> on a %token line carry that tag", "Parser", "Idendity", "Tag", "(*parser).parseTokendef", []string{"=$"}, nil, false},
		{cl, "the names after <tag> on a precedence line carry that tag", "Parser", "Idendity", "Tag", "(*parser).parsePrecList", []string{"=$"}, nil, false},
		{cl, "the names after <tag> on a %type line carry that tag", "Parser", "TypeDef", "Tag", "(*parser).parseTypeList", []string{"=$", ".current.Value"}, nil, false},
		{cl, "an action block in a rule becomes an element of the right-hand side", "Parser", "RightSymOrAction", "Element", "(*parser).parseRule", []string{".current.Value"}, []string{`.Kind == "ActionQuote"`}, false},
		{cl, "the elements collected for an alternative become its right-hand side", "Parser", "RuleDef", "RightPart", "(*parser).parseRule", []string{"=$"}, nil, false},
		{cl, "the action element's text becomes the rule's action code", "Parser", "oneRule", "ActionCode", "(*RuleVistor).Process", []string{".RightPart).Element"}, []string{"$ok", ".ElemType == 2"}, true},
	})
	checkRequiredCalls(c, r, []requiredCall{
		{cl, "a tagged identifier's tag is copied to its grammar symbol", "(*Walker).BuildLALR1", "SetTag", 0, ".Tag", []string{"$ok", `.Tag != ""`, ".Value != -1"}, true},
	})
	c07TagLocals(c, r)
}

func c04Flows(c *Ctx, r *Report) {
	const cl = "C04.b"
	checkFlowLinks(c, r, []flowLink{
		{cl, "a symbol's precedence level is stored", "Symbol", "Symbol", "Prec", "(*Symbol).SetPrec", []string{"=$"}, nil, true},
		{cl, "a symbol's associativity is stored", "Symbol", "Symbol", "PrecType", "(*Symbol).SetPrecType", []string{"=$"}, nil, true},
		{cl, "a rule's precedence symbol is stored", "Rules", "ProductoinRule", "PrecSymbol", "(*ProductoinRule).SetPrecSymbol", []string{"=$"}, nil, true},
		{cl, "%prec NAME is recorded on the alternative", "Parser", "RuleDef", "PrecSym", "(*parser).parseRule", []string{"=$.current.Value"}, []string{`.Kind == "PrecDirective"`, `Is("Identifier")`}, false},
		{cl, "%prec 'c' is recorded on the alternative under the literal's temporary name", "Parser", "RuleDef", "PrecSym", "(*parser).parseRule", []string{"=Parser.genTempName($.current.Value)"}, []string{`.Kind == "PrecDirective"`, `Is("Charater")`}, false},
		{cl, "an explicit %prec decides the rule's precedence symbol", "Parser", "oneRule", "PrecIdSym", "(*RuleVistor).Process", []string{".PrecSym]"}, []string{"$ok", `.PrecSym != ""`}, true},
		{cl, "without %prec each right-hand terminal with a precedence (the last one wins) decides it", "Parser", "oneRule", "PrecIdSym", "(*RuleVistor).Process", []string{".Element].Name]"}, []string{"$ok", ".ElemType == 1", "] != nil"}, true},
	})
	checkRequiredCalls(c, r, []requiredCall{
		{cl, "a rule's precedence symbol is handed to the grammar rule", "(*Walker).BuildLALR1", "SetPrecSymbol", -1, "", []string{"$ok", ".PrecIdSym != nil"}, true},
		{cl, "a terminal's precedence level is copied to its grammar symbol", "(*Walker).BuildLALR1", "SetPrec", 0, ".Prec", []string{"$ok", "] != nil", ".IDTyp != 2", ".Value != -1"}, true},
	})
}

func c11Flows(c *Ctx, r *Report) {
	const cl = "C11.c"
	checkFlowLinks(c, r, []flowLink{
		{cl, "a symbol's token code is stored", "Symbol", "Symbol", "Value", "(*Symbol).SetValue", []string{"=$"}, nil, true},
		{cl, "an explicit number on a later declaration of the same name is merged into the identifier table", "Parser", "Idendity", "Value", "(*astDeclareVistor).Process", []string{".IdentifyList).Value"}, []string{"$ok", "] != nil", ".Value != 0"}, true},
	})
	checkRequiredCalls(c, r, []requiredCall{
		{cl, "every identifier's code is copied to its grammar symbol", "(*Walker).BuildLALR1", "SetValue", 0, ".Value", []string{"$ok", ".Value != -1"}, true},
	})
}

func c12Flows(c *Ctx, r *Report) {
	const cl = "C12.a"
	checkFlowLinks(c, r, []flowLink{
		{cl, "marking a symbol as nonterminal is stored", "Symbol", "Symbol", "IsNonTerminator", "(*Symbol).SetNT", []string{"=true"}, nil, true},
	})
	checkRequiredCalls(c, r, []requiredCall{
		{cl, "identifiers that are not tokens become nonterminal symbols", "(*Walker).BuildLALR1", "SetNT", -1, "", []string{"$ok", ".IDTyp == 2", ".Value != -1"}, true},
	})
}

// c03Flows: the nullable marks are computed before the automaton and the lookahead sets are built.
func c03Flows(c *Ctx, r *Report) {
	const cl = "C03.e"
	checkRequiredCalls(c, r, []requiredCall{
		{cl, "nullable nonterminals are computed while the grammar is built", "(*Walker).BuildLALR1", "CalculateEpsilonClosure", -1, "", []string{"$ok"}, true},
	})
	if f := c.need(r, cl, "Parser", "Walker", "BuildLALR1"); f != nil {
		info := f.Pkg.TypesInfo
		fc := buildCFG(info, f.Decl.Body)
		var eps, lalr ast.Node
		var lastInsert ast.Node
		ast.Inspect(f.Decl.Body, func(n ast.Node) bool {
			if call, ok := n.(*ast.CallExpr); ok {
				if fn := callee(info, call); fn != nil {
					switch fn.Name() {
					case "CalculateEpsilonClosure":
						eps = call
					case "ComputeLALR":
						lalr = call
					case "InsertNewRules":
						lastInsert = call
					}
				}
			}
			return true
		})
		ok := eps != nil && lalr != nil && lastInsert != nil && lastInsert.End() < eps.Pos() && fc.Dominates(eps, lalr)
		r.Check(ok, cl, "R2 ORDER", f.Name+"/nullable-before-lookaheads", c.pos(f.Decl.Pos()),
			"CalculateEpsilonClosure runs after all rules were inserted and dominates ComputeLALR (reads / includes use the marks)",
			"the nullable marks are not computed between the insertion of the rules and the lookahead computation on every path")
	}
}

// c07TagLocals: in the three declaration-line parsers the text between < and > is what the names receive as tag.
func c07TagLocals(c *Ctx, r *Report) {
	for _, fname := range []string{"parseTokendef", "parsePrecList", "parseTypeList"} {
		f := c.need(r, "C07.c", "Parser", "parser", fname)
		if f == nil {
			continue
		}
		info := f.Pkg.TypesInfo
		var tagObj types.Object
		ast.Inspect(f.Decl.Body, func(n ast.Node) bool {
			if id, ok := n.(*ast.Ident); ok && id.Name == "Tag" {
				if o := info.Defs[id]; o != nil {
					if _, isVar := o.(*types.Var); isVar && !o.(*types.Var).IsField() {
						tagObj = o
					}
				}
			}
			return true
		})
		key := f.Name + "/tag-is-the-text-between-angle-brackets"
		if tagObj == nil {
			r.Undecided("C07.c", "R1 MUST-FLOW", key, c.pos(f.Decl.Pos()), "no local named Tag")
			continue
		}
		why := "the tag local is never assigned the current token's text"
		for _, w := range localWrites(f, tagObj) {
			if !strings.HasSuffix(w.path, ".current.Value") {
				continue
			}
			target := nodeAt(f.Decl.Body, w.pos)
			if target == nil {
				continue
			}
			atoms := guardAtoms(c, f, target)
			if m := guardMismatch(atoms, []string{`Is("LeftAngleBracket")`}, true); m == "" {
				why = ""
			} else {
				why = "the tag is taken from the token text, but " + m
			}
		}
		r.Check(why == "", "C07.c", "R1 MUST-FLOW", key, c.pos(f.Decl.Pos()),
			"after `<` the next token's text becomes the tag that the names of the line receive", why)
	}
}
