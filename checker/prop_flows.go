package main

// prop_flows.go — the must-flow tables (flow.go) of the properties whose data travels through the front end:
// tags and action text (C07), precedence (C04), token codes (C11), nullable marks (C03). Every line was confirmed
// by reading the function it names.

import (
	"fmt"
	"go/ast"
	"go/constant"
	"go/token"
	"go/types"
	"golang.org/x/tools/go/ast/astutil"
	"strings"
	"unicode"
)

func c07Flows(c *Ctx, r *Report) {
	const cl = "C07.c"
	checkFlowLinks(c, r, []flowLink{
		{cl, "a union tag set on a grammar symbol is stored", "Symbol", "Symbol", "Tag", "(*Symbol).SetTag", []string{"=$"}, nil, true},
		{cl, "the tag written on a %token / %left line is merged into an identifier declared before", "Parser", "Idendity", "Tag", "(*astDeclareVistor).Process", []string{".IdentifyList).Tag"}, []string{"?$ok", "] != nil", `?.Tag != ""`}, true},
		{cl, "%type gives its tag to an identifier declared before", "Parser", "Idendity", "Tag", "(*astDeclareVistor).Process", []string{".TypeDefList).Tag"}, []string{"?$ok", "] != nil"}, true},
		{cl, "%type creates the identifier with its tag when it is new", "Parser", "Idendity", "Tag", "(*astDeclareVistor).Process", []string{".TypeDefList).Tag"}, []string{"?$ok", "] == nil"}, true},
		{cl, "the names after <tag> on a %token line carry that tag", "Parser", "Idendity", "Tag", "(*parser).parseTokendef", []string{"=$"}, nil, false},
		{cl, "the names after <tag> on a precedence line carry that tag", "Parser", "Idendity", "Tag", "(*parser).parsePrecList", []string{"=$"}, nil, false},
		{cl, "the names after <tag> on a %type line carry that tag", "Parser", "TypeDef", "Tag", "(*parser).parseTypeList", []string{"=$", ".current.Value"}, nil, false},
		{cl, "an action block in a rule becomes an element of the right-hand side", "Parser", "RightSymOrAction", "Element", "(*parser).parseRule", []string{".current.Value"}, []string{`.Kind == "ActionQuote"`}, false},
		{cl, "the elements collected for an alternative become its right-hand side", "Parser", "RuleDef", "RightPart", "(*parser).parseRule", []string{"=$"}, nil, false},
		{cl, "the action element's text becomes the rule's action code", "Parser", "oneRule", "ActionCode", "(*RuleVistor).Process", []string{".RightPart).Element"}, []string{"?$ok", ".ElemType == 2"}, true},
	})
	checkRequiredCalls(c, r, []requiredCall{
		{cl, "a tagged identifier's tag is copied to its grammar symbol", "(*Walker).BuildLALR1", "SetTag", 0, ".Tag", []string{"?$ok", `?.Tag != ""`, "?.Value != -1"}, true, true},
	})
	c07TagLocals(c, r)
	idTableCreatedOnce(c, r, cl)
}

func c04Flows(c *Ctx, r *Report) {
	const cl = "C04.b"
	checkFlowLinks(c, r, []flowLink{
		{cl, "a symbol's precedence level is stored", "Symbol", "Symbol", "Prec", "(*Symbol).SetPrec", []string{"=$"}, nil, true},
		{cl, "a symbol's associativity is stored", "Symbol", "Symbol", "PrecType", "(*Symbol).SetPrecType", []string{"=$"}, nil, true},
		{cl, "a rule's precedence symbol is stored", "Rules", "ProductoinRule", "PrecSymbol", "(*ProductoinRule).SetPrecSymbol", []string{"=$"}, nil, true},
		{cl, "%prec NAME is recorded on the alternative", "Parser", "RuleDef", "PrecSym", "(*parser).parseRule", []string{"=$.current.Value"}, []string{`.Kind == "PrecDirective"`, `.Kind == "Identifier"`}, false},
		{cl, "%prec 'c' is recorded on the alternative under the literal's temporary name", "Parser", "RuleDef", "PrecSym", "(*parser).parseRule", []string{"=Parser.genTempName($.current.Value)"}, []string{`.Kind == "PrecDirective"`, `.Kind == "Charater"`}, false},
		{cl, "an explicit %prec decides the rule's precedence symbol", "Parser", "oneRule", "PrecIdSym", "(*RuleVistor).Process", []string{".PrecSym]"}, []string{"?$ok", `.PrecSym != ""`}, true},
		{cl, "without %prec each right-hand terminal with a precedence (the last one wins) decides it", "Parser", "oneRule", "PrecIdSym", "(*RuleVistor).Process", []string{".Element].Name]"}, []string{"?$ok", ".ElemType == 1", "preMap[…] != nil", "?idsymtabl[…] != nil"}, true},
	})
	checkRequiredCalls(c, r, []requiredCall{
		{cl, "a rule's precedence symbol is handed to the grammar rule", "(*Walker).BuildLALR1", "SetPrecSymbol", -1, "", []string{"?$ok", ".PrecIdSym != nil"}, true, false},
		{cl, "a terminal's precedence level is copied to its grammar symbol", "(*Walker).BuildLALR1", "SetPrec", 0, ".Prec", []string{"?$ok", "] != nil", "?.IDTyp != 2", "?.Value != -1"}, true, false},
	})
}

func c11Flows(c *Ctx, r *Report) {
	const cl = "C11.c"
	checkFlowLinks(c, r, []flowLink{
		{cl, "a symbol's token code is stored", "Symbol", "Symbol", "Value", "(*Symbol).SetValue", []string{"=$"}, nil, true},
		{cl, "an explicit number on a later declaration of the same name is merged into the identifier table", "Parser", "Idendity", "Value", "(*astDeclareVistor).Process", []string{".IdentifyList).Value"}, []string{"?$ok", "] != nil", ".Value != 0"}, true},
	})
	checkRequiredCalls(c, r, []requiredCall{
		{cl, "every identifier's code is copied to its grammar symbol", "(*Walker).BuildLALR1", "SetValue", 0, ".Value", []string{"?$ok", "?.Value != -1"}, true, true},
	})
	idTableCreatedOnce(c, r, cl)
}

func c12Flows(c *Ctx, r *Report) {
	const cl = "C12.a"
	checkFlowLinks(c, r, []flowLink{
		{cl, "marking a symbol as nonterminal is stored", "Symbol", "Symbol", "IsNonTerminator", "(*Symbol).SetNT", []string{"=true"}, nil, true},
	})
	checkRequiredCalls(c, r, []requiredCall{
		{cl, "identifiers that are not tokens become nonterminal symbols", "(*Walker).BuildLALR1", "SetNT", -1, "", []string{"?$ok", ".IDTyp == 2", "?.Value != -1"}, true, false},
	})
}

// c03Flows: the nullable marks are computed before the automaton and the lookahead sets are built.
func c03Flows(c *Ctx, r *Report) {
	const cl = "C03.e"
	checkRequiredCalls(c, r, []requiredCall{
		{cl, "nullable nonterminals are computed while the grammar is built", "(*Walker).BuildLALR1", "CalculateEpsilonClosure", -1, "", []string{"?$ok"}, true, false},
	})
	if f := c.need(r, cl, "Parser", "Walker", "BuildLALR1"); f != nil {
		info := f.Pkg.TypesInfo
		fc := buildCFG(info, f.Decl.Body)
		var eps, lalr ast.Node
		var lastInsert ast.Node
		ast.Inspect(f.Decl.Body, func(n ast.Node) bool {
			if call, ok := n.(*ast.CallExpr); ok {
				if fn := callee(info, call); fn != nil {
					switch fn.Name() {
					case "CalculateEpsilonClosure":
						eps = call
					case "ComputeLALR":
						lalr = call
					case "InsertNewRules":
						lastInsert = call
					}
				}
			}
			return true
		})
		ok := eps != nil && lalr != nil && lastInsert != nil && lastInsert.End() < eps.Pos() && fc.Dominates(eps, lalr)
		r.Check(ok, cl, "R2 ORDER", f.Name+"/nullable-before-lookaheads", c.pos(f.Decl.Pos()),
			"CalculateEpsilonClosure runs after all rules were inserted and dominates ComputeLALR (reads / includes use the marks)",
			"the nullable marks are not computed between the insertion of the rules and the lookahead computation on every path")
	}
}

// c07TagLocals: in the three declaration-line parsers the text between < and > is what the names receive as tag.
func c07TagLocals(c *Ctx, r *Report) {
	for _, fname := range []string{"parseTokendef", "parsePrecList", "parseTypeList"} {
		f := c.need(r, "C07.c", "Parser", "parser", fname)
		if f == nil {
			continue
		}
		info := f.Pkg.TypesInfo
		var tagObj types.Object
		ast.Inspect(f.Decl.Body, func(n ast.Node) bool {
			// the local whose value the definitions of the line receive as their Tag field (whatever it is called)
			if kv, ok := n.(*ast.KeyValueExpr); ok {
				if k, ok := kv.Key.(*ast.Ident); ok && k.Name == "Tag" {
					if fv, isVar := info.Uses[k].(*types.Var); isVar && fv.IsField() {
						if o, isLocal := identObj(info, kv.Value).(*types.Var); isLocal && !o.IsField() && o.Parent() != o.Pkg().Scope() {
							tagObj = o
						}
					}
				}
			}
			return true
		})
		key := f.Name + "/tag-is-the-text-between-angle-brackets"
		if tagObj == nil {
			r.Undecided("C07.c", "R1 MUST-FLOW", key, c.pos(f.Decl.Pos()), "no local is stored as the Tag of the line's definitions")
			continue
		}
		why := "the tag local is never assigned the current token's text"
		for _, w := range localWrites(f, tagObj) {
			if !strings.HasSuffix(w.path, ".current.Value") {
				continue
			}
			target := nodeAt(f.Decl.Body, w.pos)
			if target == nil {
				continue
			}
			atoms := guardAtoms(c, f, target)
			if m := guardMismatch(atoms, []string{`.Kind == "LeftAngleBracket"`}, true); m == "" {
				why = ""
			} else {
				why = "the tag is taken from the token text, but " + m
			}
		}
		r.Check(why == "", "C07.c", "R1 MUST-FLOW", key, c.pos(f.Decl.Pos()),
			"after `<` the next token's text becomes the tag that the names of the line receive", why)
	}
}

// c10SectionExtents — the lexer side of "prologue and %union body arrive unchanged" (C10.b): the value emitted for a
// %{ … %} block / a %union { … } body is the input slice from the byte after the opening marker to the byte before
// the closing marker, and the union's closing brace is the one that balances the opening one.
func c10SectionExtents(c *Ctx, r *Report) {
	const cl = "C10.b"
	type spec struct {
		fn, kind, closer string
	}
	for _, sp := range []spec{{"CodeQuoteBegin", "CodeQuote", "%}"}, {"DirectiveUnionState", "UnionDirective", "}"}} {
		f := c.need(r, cl, "Parser", "", sp.fn)
		if f == nil {
			continue
		}
		info := f.Pkg.TypesInfo
		cf := newCoverFn(f)
		key := f.Name + "/value-is-the-text-between-the-markers"
		isLexEnd := func(e ast.Expr) bool {
			se, ok := unparen(e).(*ast.SelectorExpr)
			return ok && fieldNamed(info, se, "end")
		}
		why := "no emitValue(" + sp.kind + ", input[start:end])"
		ast.Inspect(f.Decl.Body, func(n ast.Node) bool {
			call, ok := n.(*ast.CallExpr)
			if !ok || len(call.Args) != 2 {
				return true
			}
			if fn := callee(info, call); fn == nil || fn.Name() != "emitValue" {
				return true
			}
			if kv, ok := constString(info, call.Args[0]); !ok || kv != kindConsts(c)[sp.kind] {
				return true
			}
			se, ok := unparen(call.Args[1]).(*ast.SliceExpr)
			if !ok || !fieldNamed(info, se.X, "input") || se.Low == nil || se.High == nil {
				why = "the emitted value is not a slice input[start:end]"
				return true
			}
			lo := identObj(info, se.Low)
			if lo == nil || cf.defs.count[lo] != 1 {
				why = "the start of the emitted slice is not a local with a single definition (the position recorded before the body)"
				return true
			}
			// the end: a local with a single definition, or the expression written in place
			hiExpr := unparen(se.High)
			if hi := identObj(info, se.High); hi != nil {
				if cf.defs.count[hi] != 1 {
					why = "the end of the emitted slice is a local with several definitions"
					return true
				}
				hiExpr = unparen(cf.defs.single[hi])
			}
			// start: l.end, taken before anything of the body is consumed
			if !isLexEnd(cf.defs.single[lo]) {
				why = "the slice does not start at the lexer position recorded at the beginning of the body"
				return true
			}
			// end: l.end − len(closing marker)
			be, ok := hiExpr.(*ast.BinaryExpr)
			if !ok || be.Op != token.SUB || !isLexEnd(be.X) {
				why = "the slice does not end at `l.end − <length of the closing marker>`"
				return true
			}
			if v, isC := constInt(info, be.Y); !isC || int(v) != len(sp.closer) {
				why = fmt.Sprintf("the slice ends %s bytes before the lexer position, the closing marker %q is %d byte(s) long", exprString(be.Y), sp.closer, len(sp.closer))
				return true
			}
			why = ""
			// WHERE the two positions are taken. The end: in the statement that emits, or in the statement directly
			// before it in the same block (nothing moves the cursor in between); for %{ … %} that block is the arm
			// taken when acceptWord(closer) succeeded. The start: at function level (not inside the scanning loop),
			// before the emit.
			pm := parentMap(f.Decl.Body)
			var emitStmt ast.Stmt
			for cur := ast.Node(call); cur != nil; cur = pm[cur] {
				if st, isS := cur.(ast.Stmt); isS {
					if _, inBlock := pm[cur].(*ast.BlockStmt); inBlock {
						emitStmt = st
						break
					}
				}
			}
			blk, _ := pm[emitStmt].(*ast.BlockStmt)
			if emitStmt == nil || blk == nil {
				why = "the emitting statement is not directly inside a block"
				return true
			}
			if hi := identObj(info, se.High); hi != nil {
				prevOK := false
				for i, st := range blk.List {
					if st == emitStmt && i > 0 {
						if as, isA := blk.List[i-1].(*ast.AssignStmt); isA && len(as.Lhs) == 1 && identObj(info, as.Lhs[0]) == hi {
							prevOK = true
						}
					}
				}
				if !prevOK {
					why = "the end position is not taken in the statement directly before the emit: the cursor can move in between (skipped blanks or part of the text would be cut off or kept)"
					return true
				}
			}
			if sp.closer == "%}" {
				guarded := false
				for _, a := range guardAtoms(c, f, emitStmt) {
					if strings.Contains(a, "acceptWord(") && !strings.HasPrefix(a, "!") {
						guarded = true
					}
				}
				if !guarded {
					why = "the value is emitted without the closing marker having just been recognised by acceptWord"
					return true
				}
			}
			loDef := false
			for _, st := range f.Decl.Body.List {
				if st.Pos() > emitStmt.Pos() {
					break
				}
				switch x := st.(type) {
				case *ast.AssignStmt:
					for _, l := range x.Lhs {
						if identObj(info, l) == lo {
							loDef = true
						}
					}
				case *ast.DeclStmt:
					ast.Inspect(x, func(m ast.Node) bool {
						if id, isI := m.(*ast.Ident); isI && info.Defs[id] == lo {
							loDef = true
						}
						return true
					})
				}
			}
			if !loDef {
				why = "the start position is not recorded by a statement at function level before the scan (inside the loop it would move with the cursor)"
			}
			return true
		})
		r.Check(why == "", cl, "R13 AFFINE", key, c.pos(f.Decl.Pos()),
			fmt.Sprintf("the %s value is input[position after the opening marker : position − %d], i.e. everything up to the closing %q", sp.kind, len(sp.closer), sp.closer), why)
	}
	// %union: brace balance
	if f := c.need(r, cl, "Parser", "", "DirectiveUnionState"); f != nil {
		info := f.Pkg.TypesInfo
		var level types.Object
		ast.Inspect(f.Decl.Body, func(n ast.Node) bool {
			if id, ok := n.(*ast.IncDecStmt); ok {
				if o := identObj(info, id.X); o != nil {
					level = o
				}
			}
			return true
		})
		var loop *ast.ForStmt
		for _, st := range f.Decl.Body.List {
			if ls, ok := st.(*ast.LabeledStmt); ok {
				if fs, ok := ls.Stmt.(*ast.ForStmt); ok {
					loop = fs
				}
			}
			if fs, ok := st.(*ast.ForStmt); ok {
				loop = fs
			}
		}
		key := f.Name + "/closing-brace-balances-the-opening-one"
		if level == nil || loop == nil {
			r.Undecided(cl, "R4 DECISION-TABLE", key, c.pos(f.Decl.Pos()), "no nesting counter / scanning loop")
			return
		}
		pe := newPathEnum(info)
		pe.rename[level] = "LEVEL"
		paths, err := pe.Enumerate(loop.Body.List)
		why := ""
		if err != nil {
			why = err.Error()
		}
		// the scan may also be ended by a flag: `closed := false; for !closed { … case '}': level--; closed = level == 0 … }`
		var flag types.Object
		if loop.Cond != nil {
			if un, ok := unparen(loop.Cond).(*ast.UnaryExpr); ok && un.Op == token.NOT {
				flag = identObj(info, un.X)
			}
			flagInit := false
			for _, st := range f.Decl.Body.List {
				if st.Pos() >= loop.Pos() {
					break
				}
				if as, ok := st.(*ast.AssignStmt); ok && len(as.Lhs) == 1 && len(as.Rhs) == 1 && flag != nil && identObj(info, as.Lhs[0]) == flag {
					if cv := constOf(info, as.Rhs[0]); cv != nil && cv.Kind() == constant.Bool {
						flagInit = !constant.BoolVal(cv)
					}
				}
			}
			if flag == nil || !flagInit {
				why = "the scanning loop has a condition that is not `!<flag>` with the flag false before the loop"
			}
		}
		stops := func(p *PathOut) (bool, bool) { // (leaves the scan, decided)
			if flag == nil {
				return p.Kind == "break", true
			}
			if p.Kind != "fall" && p.Kind != "continue" {
				return false, false
			}
			t := p.Env[flag]
			if t == nil {
				return false, true
			}
			switch t.String() {
			case "((LEVEL - 1) == 0)", "(0 == (LEVEL - 1))":
				return true, true // read as: leaves iff the new level is 0 — compared with `zero` below
			case "false":
				return false, true
			}
			return false, false
		}
		val := func(ch int64) func(t *Term) (constant.Value, bool) {
			return func(t *Term) (constant.Value, bool) {
				if t.Op == "call" && strings.HasSuffix(t.Name, "lexer).next") {
					return constant.MakeInt64(ch), true
				}
				return nil, false
			}
		}
		delta := func(p *PathOut) string {
			t := p.Env[level]
			if t == nil {
				return "0"
			}
			switch t.String() {
			case "(LEVEL + 1)":
				return "+1"
			case "(LEVEL - 1)":
				return "-1"
			}
			return t.String()
		}
		for _, cs := range []struct {
			name string
			ch   int64
		}{{"{", '{'}, {"}", '}'}, {"other", 'x'}} {
			for _, p := range selectPaths(paths, val(cs.ch)) {
				d := delta(p)
				leaves, decided := stops(p)
				switch cs.name {
				case "{":
					if d != "+1" || p.Kind != "fall" || leaves || !decided {
						why = "an opening brace does not raise the nesting level by one and continue"
					}
				case "}":
					if d != "-1" {
						why = "a closing brace does not lower the nesting level by one"
					}
					if flag != nil {
						// the flag becomes `new level == 0` on this path, unconditionally
						if t := p.Env[flag]; t == nil || (t.String() != "((LEVEL - 1) == 0)" && t.String() != "(0 == (LEVEL - 1))") || !decided {
							why = "the scan does not stop exactly at the brace that brings the level back to 0 (the end flag is not set to `level == 0` after the decrement)"
						}
						break
					}
					zero := false
					for _, cd := range p.Conds {
						if cd.Atom.String() == "((LEVEL - 1) == 0)" && cd.Pol {
							zero = true
						}
					}
					if zero != leaves {
						why = "the scan does not stop exactly at the brace that brings the level back to 0"
					}
				default:
					if d != "0" || p.Kind != "fall" || leaves || !decided {
						why = "another character changes the nesting level or ends the scan"
					}
				}
			}
		}
		// the level is 1 when the scan starts: `level := 0` … `level++` after the opening brace
		init0, inc := false, 0
		for _, st := range f.Decl.Body.List {
			if st.Pos() >= loop.Pos() {
				break
			}
			switch x := st.(type) {
			case *ast.AssignStmt:
				if len(x.Lhs) == 1 && identObj(info, x.Lhs[0]) == level {
					if v, isC := constInt(info, x.Rhs[0]); isC && v == 0 {
						init0 = true
					}
					if v, isC := constInt(info, x.Rhs[0]); isC && v == 1 {
						init0, inc = true, inc+1 // `level := 1`: the opening brace already counted
					}
				}
			case *ast.IncDecStmt:
				if identObj(info, x.X) == level && x.Tok == token.INC {
					inc++
				}
			}
		}
		if why == "" && (!init0 || inc != 1) {
			why = "the nesting level is not 1 when the body scan starts"
		}
		r.Check(why == "", cl, "R4 DECISION-TABLE", key, c.pos(loop.Pos()),
			"level starts at 1; `{` → +1, `}` → −1 and stop exactly when it reaches 0, any other character leaves it alone", why)
	}
}

// c09InsertDecision — InsertItemClosure(state, needCheck): the state is appended (index = position, returned) exactly
// when needCheck is false or the state is not yet present; otherwise nothing is appended and a negative value says so.
func c09InsertDecision(c *Ctx, r *Report, clause string) {
	f := c.need(r, clause, "LR", "LR0", "InsertItemClosure")
	if f == nil {
		return
	}
	info := f.Pkg.TypesInfo
	key := f.Name + "/inserts-iff-unchecked-or-new"
	ps := paramObjs(info, f.Decl)
	if len(ps) != 2 {
		r.Undecided(clause, "R4 DECISION-TABLE", key, c.pos(f.Decl.Pos()), "expected (state, needCheck)")
		return
	}
	pe := newPathEnum(info)
	pe.rename[ps[0]] = "IC"
	pe.rename[ps[1]] = "NEEDCHECK"
	paths, err := pe.Enumerate(f.Decl.Body.List)
	if err != nil {
		r.Undecided(clause, "R4 DECISION-TABLE", key, c.pos(f.Decl.Pos()), err.Error())
		return
	}
	why := ""
	n := 0
	for _, needCheck := range []bool{false, true} {
		for _, exists := range []bool{false, true} {
			nc, ex := needCheck, exists
			val := func(t *Term) (constant.Value, bool) {
				switch {
				case t.Op == "leaf" && t.Name == "NEEDCHECK":
					return constant.MakeBool(nc), true
				case strings.HasPrefix(t.String(), "result1(") && strings.Contains(t.String(), "CheckIsExist("):
					return constant.MakeBool(ex), true
				case t.Op == "cmp" && strings.Contains(t.String(), "len(IC.Items)"):
					return constant.MakeBool(false), true // a non-empty state
				}
				return nil, false
			}
			for _, p := range selectPaths(paths, val) {
				if p.Kind == "panic" {
					continue
				}
				n++
				appended := false
				for _, e := range p.Effects {
					if e.Kind == "store" && strings.HasSuffix(e.LHS.String(), ".LR0Closure") && strings.HasPrefix(e.Term.String(), "append(") && strings.HasSuffix(e.Term.String(), ", IC)") {
						appended = true
					}
				}
				want := !nc || !ex
				if appended != want {
					why = fmt.Sprintf("needCheck=%v, already present=%v: the state is %s", nc, ex, map[bool]string{true: "appended although it must not be", false: "not appended"}[appended])
				}
				if p.Kind != "return" || len(p.Vals) != 1 {
					why = "a path does not return one value"
					continue
				}
				if !want {
					if p.Vals[0].Op != "const" {
						why = "a refused insertion does not return a constant"
					} else if v, ok := constant.Int64Val(constant.ToInt(p.Vals[0].Val)); !ok || v >= 0 {
						why = "a refused insertion returns a possible state index"
					}
				}
			}
		}
	}
	if why == "" && n < 3 {
		why = "the decision classes could not be enumerated"
	}
	r.Check(why == "", clause, "R4 DECISION-TABLE", key, c.pos(f.Decl.Pos()),
		"the state is appended exactly when needCheck is false or CheckIsExist does not find it; a refusal returns a negative constant", why)
}

// c01StartSymbolFlow — the grammar's rule 0 is start′ → S where S is the symbol made from the identifier recorded as
// start symbol (the %start name or `start`): the local that receives it is assigned under exactly `id == startSym`
// and rule 0's right-hand side is that local alone.
func c01StartSymbolFlow(c *Ctx, r *Report, clause string) {
	f := c.need(r, clause, "Parser", "Walker", "BuildLALR1")
	if f == nil {
		return
	}
	info := f.Pkg.TypesInfo
	key := f.Name + "/rule-0-derives-the-declared-start-symbol"
	why := "no rule `NewProductoinRule(g.StartSymbol, {S})` inserted before the user's rules"
	ast.Inspect(f.Decl.Body, func(n ast.Node) bool {
		call, ok := n.(*ast.CallExpr)
		if !ok || len(call.Args) != 2 {
			return true
		}
		if fn := callee(info, call); fn == nil || fn.Name() != "NewProductoinRule" || !fieldNamed(info, call.Args[0], "StartSymbol") {
			return true
		}
		cl, ok := unparen(call.Args[1]).(*ast.CompositeLit)
		if !ok || len(cl.Elts) != 1 {
			why = "rule 0's right-hand side is not a single symbol"
			return true
		}
		first := identObj(info, cl.Elts[0])
		if first == nil {
			why = "rule 0's right-hand side is not a local holding the start symbol"
			return true
		}
		// writes of that local
		nW := 0
		for _, w := range localWrites(f, first) {
			if w.op == "var" {
				continue
			}
			nW++
			target := nodeAt(f.Decl.Body, w.pos)
			if target == nil {
				continue
			}
			atoms := guardAtoms(c, f, target)
			var rel []string
			for _, a := range atoms {
				if a == "($ok)" || strings.Contains(a, ".Value != -1") {
					continue
				}
				rel = append(rel, a)
			}
			if len(rel) == 1 && !strings.HasPrefix(rel[0], "!") && strings.Contains(rel[0], " == ") && strings.Contains(rel[0], ".startSym") {
				why = ""
			} else {
				why = fmt.Sprintf("the symbol used in rule 0 is chosen under %v, not exactly when the identifier is the recorded start symbol", rel)
			}
		}
		if nW != 1 {
			why = fmt.Sprintf("the local used in rule 0 has %d assignments, expected one", nW)
		}
		return true
	})
	r.Check(why == "", clause, "R1 MUST-FLOW", key, c.pos(f.Decl.Pos()),
		"rule 0 is start′ → S with S the symbol of the identifier that %start (or the default name) designates", why)
}

// c04NoPrecedenceSentinel — "this symbol / rule has no precedence" is one value everywhere: what NewSymbol gives a
// fresh symbol, what CheckAndResolveConflict gives a rule without precedence symbol, what ResolveConflict tests for.
func c04NoPrecedenceSentinel(c *Ctx, r *Report, clause string) {
	key := "LALR+Symbol/no-precedence-sentinel"
	var vals []string
	note := func(where string, v int64) { vals = append(vals, fmt.Sprintf("%s: %d", where, v)) }
	var all []int64
	if f := c.need(r, clause, "Symbol", "", "NewSymbol"); f != nil {
		info := f.Pkg.TypesInfo
		ast.Inspect(f.Decl.Body, func(n ast.Node) bool {
			if kv, ok := n.(*ast.KeyValueExpr); ok {
				if id, ok := kv.Key.(*ast.Ident); ok && id.Name == "Prec" {
					if v, isC := constInt(info, kv.Value); isC {
						note("NewSymbol", v)
						all = append(all, v)
					}
				}
			}
			return true
		})
	}
	if f := c.need(r, clause, "LALR", "LALR1", "CheckAndResolveConflict"); f != nil {
		info := f.Pkg.TypesInfo
		// Pre := <const> … Prec: Pre
		ast.Inspect(f.Decl.Body, func(n ast.Node) bool {
			if as, ok := n.(*ast.AssignStmt); ok && (as.Tok == token.DEFINE || as.Tok == token.ASSIGN) && len(as.Lhs) == len(as.Rhs) {
				for ai := range as.Lhs {
					v, isC := constInt(info, as.Rhs[ai])
					o := identObj(info, as.Lhs[ai])
					if !isC || o == nil {
						continue
					}
					used := false
					ast.Inspect(f.Decl.Body, func(m ast.Node) bool {
						if kv, ok := m.(*ast.KeyValueExpr); ok {
							if id, ok := kv.Key.(*ast.Ident); ok && id.Name == "Prec" && identObj(info, kv.Value) == o {
								used = true
							}
						}
						return true
					})
					if used {
						note("rule without precedence symbol", v)
						all = append(all, v)
					}
				}
			}
			return true
		})
	}
	if f := c.need(r, clause, "LALR", "LALR1", "ResolveConflict"); f != nil {
		info := f.Pkg.TypesInfo
		ast.Inspect(f.Decl.Body, func(n ast.Node) bool {
			if be, ok := n.(*ast.BinaryExpr); ok && be.Op == token.EQL {
				fx, cy := be.X, be.Y
				if !fieldNamed(info, fx, "Prec") {
					fx, cy = be.Y, be.X
				}
				if fieldNamed(info, fx, "Prec") {
					if v, isC := constInt(info, cy); isC {
						note("ResolveConflict's test", v)
						all = append(all, v)
					}
				}
			}
			return true
		})
	}
	ok := len(all) >= 4
	for _, v := range all {
		if v != all[0] || v >= 0 {
			ok = false
		}
	}
	r.Check(ok, clause, "R10 SIBLING-SITES", key, "LALR/Table.go, Symbol/symbol.go",
		fmt.Sprintf("one negative value means `no precedence` at all %d sites (%v)", len(all), vals),
		fmt.Sprintf("the sites that produce and test `no precedence` disagree or use a possible level (%v): a symbol without precedence would take part in precedence comparisons", vals))
}

// c10DirectiveWords — every directive word the lexer recognises produces its own token kind: %type → TypeDirective,
// %token → TokenDirective, %left / %right / %nonassoc → the three associativity kinds, %prec → PrecDirective,
// %start → StartDirective (the parser's dispatch is checked by C04 / C07 / C10 rules on these kinds).
func c10DirectiveWords(c *Ctx, r *Report, clause string) {
	f := c.need(r, clause, "Parser", "", "DirectiveOtherState")
	if f == nil {
		return
	}
	want := map[string]string{"type": "TypeDirective", "token": "TokenDirective", "left": "LeftAssoc", "right": "RightAssoc", "nonassoc": "NoneAssoc", "prec": "PrecDirective", "start": "StartDirective"}
	kinds := kindConsts(c)
	got := map[string]string{}
	arms := directiveArms(f)
	var shared []string
	for _, a := range arms {
		if a.kind != "" {
			got[a.word] = a.kind
		}
		if !a.exclusive {
			shared = append(shared, "%"+a.word)
		}
	}
	// exactly one keyword follows the `%`: once an arm has matched, no other keyword may be tried on the text that
	// FOLLOWS the directive — `%left prec_neg`, `%token left_paren`, `%type token_sep` would lose their first
	// identifier to a second directive (acceptOnlyAlphaWord skips blanks and stops at `_` or a digit)
	sortStrings(shared)
	if len(arms) < 8 {
		r.Undecided(clause, "R4 DECISION-TABLE", f.Name+"/one-keyword-per-directive", c.pos(f.Decl.Pos()), fmt.Sprintf("only %d keyword arms recognised (9 confirmed by hand)", len(arms)))
	} else {
		r.Check(len(shared) == 0, clause, "R4 DECISION-TABLE", f.Name+"/one-keyword-per-directive", c.pos(f.Decl.Pos()),
			fmt.Sprintf("the %d keyword arms are mutually exclusive (cases of one switch, an else-if chain, or arms that return): the text after a recognised directive is never tested for another keyword", len(arms)),
			"after "+strings.Join(shared, ", ")+" matched, the following keywords are still tried on the text behind the directive: an identifier that starts with a directive word and continues with `_` or a digit (prec_neg, left_paren, type_list) is swallowed as a second directive and the declaration is silently misread")
	}
	var bad []string
	for w, k := range want {
		if got[w] != kinds[k] || kinds[k] == "" {
			bad = append(bad, fmt.Sprintf("%%%s → %q (expected kind %s)", w, got[w], k))
		}
	}
	sortStrings(bad)
	r.Check(len(bad) == 0, clause, "R4 DECISION-TABLE", f.Name+"/directive-word-to-token-kind", c.pos(f.Decl.Pos()),
		fmt.Sprintf("all %d directive words emit their own token kind, at function level (no other condition)", len(want)),
		"a directive word does not produce its token: "+strings.Join(bad, "; "))
}

// c10CursorDiscipline — the lexer's look-ahead helpers leave the cursor where the caller expects it:
// acceptRun reads one rune past the run and gives exactly that rune back; acceptWord / acceptOnlyAlphaWord put the
// cursor back to where it was on entry whenever they answer false (the caller then tries the next alternative on the
// same text). A helper that keeps some of the text it looked at makes the following token start too late.
func c10CursorDiscipline(c *Ctx, r *Report, clause string) {
	if f := c.need(r, clause, "Parser", "lexer", "acceptRun"); f != nil {
		info := f.Pkg.TypesInfo
		why := ""
		var loop *ast.ForStmt
		backups := 0
		for _, st := range f.Decl.Body.List {
			switch x := st.(type) {
			case *ast.ForStmt:
				loop = x
			case *ast.ExprStmt:
				if call, ok := x.X.(*ast.CallExpr); ok {
					if fn := callee(info, call); fn != nil && fn.Name() == "backup" && loop != nil {
						backups++
					}
				}
			}
		}
		nextInCond := 0
		if loop != nil && loop.Cond != nil {
			ast.Inspect(loop.Cond, func(n ast.Node) bool {
				if call, ok := n.(*ast.CallExpr); ok {
					if fn := callee(info, call); fn != nil && fn.Name() == "next" {
						nextInCond++
					}
				}
				return true
			})
		}
		switch {
		case loop == nil || nextInCond != 1 || len(loop.Body.List) != 0:
			why = "not the form `for <member>(l.next()) {}`"
		case backups != 1:
			why = fmt.Sprintf("the rune that ended the run is given back %d times, expected once: the next token would start one rune late (or early)", backups)
		}
		r.Check(why == "", clause, "R2 ORDER", f.Name+"/gives-back-the-terminating-rune", c.pos(f.Decl.Pos()),
			"acceptRun consumes the run and backs up exactly once over the rune that ended it", why)
	}
	for _, name := range []string{"acceptWord", "acceptOnlyAlphaWord"} {
		f := c.need(r, clause, "Parser", "lexer", name)
		if f == nil {
			continue
		}
		info := f.Pkg.TypesInfo
		defs := newDefs(info)
		defs.scan(f.Decl.Body)
		pm := parentMap(f.Decl.Body)
		isLexEnd := func(e ast.Expr) bool {
			se, ok := unparen(e).(*ast.SelectorExpr)
			return ok && fieldNamed(info, se, "end")
		}
		// the saved entry position: a local whose single definition is l.end in the function's first statement
		var saved types.Object
		if as, ok := f.Decl.Body.List[0].(*ast.AssignStmt); ok && len(as.Lhs) == len(as.Rhs) {
			for i, rhs := range as.Rhs {
				if isLexEnd(rhs) {
					saved = identObj(info, as.Lhs[i])
				}
			}
		}
		why := ""
		nFalse := 0
		if saved == nil {
			why = "the entry position is not saved first"
		}
		ast.Inspect(f.Decl.Body, func(n ast.Node) bool {
			rt, ok := n.(*ast.ReturnStmt)
			if !ok || len(rt.Results) != 1 || why != "" {
				return true
			}
			cv := constOf(info, rt.Results[0])
			if cv == nil || cv.Kind() != constant.Bool || constant.BoolVal(cv) {
				return true
			}
			nFalse++
			blk, _ := pm[rt].(*ast.BlockStmt)
			restored := false
			if blk != nil {
				for i, st := range blk.List {
					if st != ast.Stmt(rt) || i == 0 {
						continue
					}
					if as, ok := blk.List[i-1].(*ast.AssignStmt); ok && len(as.Lhs) == len(as.Rhs) {
						for k, l := range as.Lhs {
							if isLexEnd(l) && identObj(info, as.Rhs[k]) == saved {
								restored = true
							}
						}
					}
					// or through a helper of the lexer whose only effect on the cursor is `l.end = <parameter>`,
					// called with the saved position for that parameter
					if es, ok := blk.List[i-1].(*ast.ExprStmt); ok {
						if call, ok := es.X.(*ast.CallExpr); ok {
							if k := cursorParamOf(c, info, call); k >= 0 && k < len(call.Args) && identObj(info, call.Args[k]) == saved {
								restored = true
							}
						}
					}
				}
			}
			if !restored {
				why = "a `return false` at " + c.pos(rt.Pos()) + " is not preceded by restoring the cursor to the entry position: the text looked at is lost for the next alternative"
			}
			return true
		})
		if why == "" && nFalse == 0 {
			why = "no failing exit found"
		}
		r.Check(why == "", clause, "R2 ORDER", f.Name+"/failure-restores-the-cursor", c.pos(f.Decl.Pos()),
			fmt.Sprintf("all %d failing exits put the cursor back to the position saved on entry", nFalse), why)
	}
}

// c10TokenStartDiscipline — a token's text is input[start:end]; emitting a token (emitValue) and skipping text (ignore)
// both move `start` up to `end`, so the next token's text begins where this one ended; word() is exactly that slice.
func c10TokenStartDiscipline(c *Ctx, r *Report, clause string) {
	isField := func(info *types.Info, e ast.Expr, name string) bool {
		se, ok := unparen(e).(*ast.SelectorExpr)
		return ok && fieldNamed(info, se, name)
	}
	for _, name := range []string{"emitValue", "ignore"} {
		f := c.need(r, clause, "Parser", "lexer", name)
		if f == nil {
			continue
		}
		info := f.Pkg.TypesInfo
		ok := false
		for _, st := range f.Decl.Body.List { // function level: unconditional
			if as, isA := st.(*ast.AssignStmt); isA && len(as.Lhs) == 1 && len(as.Rhs) == 1 && as.Tok == token.ASSIGN {
				if isField(info, as.Lhs[0], "start") && isField(info, as.Rhs[0], "end") {
					ok = true
				}
			}
			// or through ignore(), which is held to the same obligation
			if es, isE := st.(*ast.ExprStmt); isE && name != "ignore" {
				if call, isC := es.X.(*ast.CallExpr); isC {
					if fn := callee(info, call); fn != nil && fn.Name() == "ignore" && c.FuncOf(fn) != nil {
						ok = true
					}
				}
			}
		}
		r.Check(ok, clause, "R2 ORDER", f.Name+"/start-moves-up-to-end", c.pos(f.Decl.Pos()),
			name+" sets start = end unconditionally: the next token's text begins after this one",
			name+" does not move start up to end: the next token's text would still contain the text just emitted / skipped")
	}
	if f := c.need(r, clause, "Parser", "lexer", "emit"); f != nil {
		info := f.Pkg.TypesInfo
		isWordSlice := func(finfo *types.Info, e ast.Expr) bool {
			se, isS := unparen(e).(*ast.SliceExpr)
			return isS && isField(finfo, se.X, "input") && se.Low != nil && se.High != nil && se.Max == nil && isField(finfo, se.Low, "start") && isField(finfo, se.High, "end")
		}
		ok := false
		ast.Inspect(f.Decl.Body, func(n ast.Node) bool {
			call, isC := n.(*ast.CallExpr)
			if !isC || len(call.Args) != 2 {
				return true
			}
			fn := callee(info, call)
			if fn == nil || fn.Name() != "emitValue" {
				return true
			}
			ps := paramObjs(info, f.Decl)
			if len(ps) != 1 || identObj(info, call.Args[0]) != ps[0] {
				return true
			}
			// the text: input[start:end] written in place, or through a helper of the lexer whose body is
			// `return l.input[l.start:l.end]`
			if isWordSlice(info, call.Args[1]) {
				ok = true
			} else if wc, isW := unparen(call.Args[1]).(*ast.CallExpr); isW && len(wc.Args) == 0 {
				if wf := callee(info, wc); wf != nil {
					if ref := c.FuncOf(wf); ref != nil && ref.Decl.Body != nil && len(ref.Decl.Body.List) == 1 {
						if rt, isR := ref.Decl.Body.List[0].(*ast.ReturnStmt); isR && len(rt.Results) == 1 && isWordSlice(ref.Pkg.TypesInfo, rt.Results[0]) {
							ok = true
						}
					}
				}
			}
			return true
		})
		r.Check(ok, clause, "R1 PROVENANCE", f.Name+"/emits-the-current-word", c.pos(f.Decl.Pos()), "emit(kind) = emitValue(kind, input[start:end])", "emit does not emit input[start:end] under the given kind")
	}
}

// c10DeclareDispatch — parseDeclare hands each kind of declaration to its own reader and keeps what it returns:
// evaluated as a decision table over the token kind of the loop's current token.
func c10DeclareDispatch(c *Ctx, r *Report, clause string) {
	f := c.need(r, clause, "Parser", "parser", "parseDeclare")
	if f == nil {
		return
	}
	info := f.Pkg.TypesInfo
	key := f.Name + "/each-declaration-kind-reaches-its-reader"
	var loop *ast.ForStmt
	for _, st := range f.Decl.Body.List {
		if fs, ok := st.(*ast.ForStmt); ok {
			loop = fs
		}
	}
	if loop == nil {
		r.Undecided(clause, "R4 DECISION-TABLE", key, c.pos(f.Decl.Pos()), "no declaration loop")
		return
	}
	pe := newPathEnum(info)
	paths, err := pe.Enumerate(loop.Body.List)
	if err != nil {
		r.Undecided(clause, "R4 DECISION-TABLE", key, c.pos(loop.Pos()), err.Error())
		return
	}
	kinds := kindConsts(c)
	want := []struct {
		kind, reader string
	}{
		{"TokenDirective", "parseTokendef"},
		{"LeftAssoc", "parsePrecList"}, {"RightAssoc", "parsePrecList"}, {"NoneAssoc", "parsePrecList"}, {"Precedence", "parsePrecList"},
		{"TypeDirective", "parseTypeList"},
		{"StartDirective", "parseStartSymbol"},
	}
	readers := map[string]bool{"parseTokendef": true, "parsePrecList": true, "parseTypeList": true, "parseStartSymbol": true}
	var bad []string
	for _, w := range want {
		kv := kinds[w.kind]
		if kv == "" {
			bad = append(bad, "no token kind "+w.kind)
			continue
		}
		hits := selectPaths(paths, kindValuation(c, kv, nil))
		if len(hits) == 0 {
			bad = append(bad, w.kind+": no path")
		}
		for _, p := range hits {
			called := map[string]bool{}
			for _, e := range p.Effects {
				if e.Kind == "call" {
					name := e.Term.Name
					if i := strings.LastIndex(name, "."); i >= 0 {
						name = name[i+1:]
					}
					if readers[name] {
						called[name] = true
					}
				}
			}
			if !called[w.reader] || len(called) != 1 {
				bad = append(bad, fmt.Sprintf("a %s declaration is read by %v, expected %s", w.kind, sortedKeys(called), w.reader))
				continue
			}
			// the reader's result is kept: a local is assigned a term that contains the reader's call
			kept := false
			for _, t := range p.Env {
				if t != nil && strings.Contains(t.String(), "."+w.reader+"(") {
					kept = true
				}
			}
			if !kept {
				bad = append(bad, "the result of "+w.reader+" for a "+w.kind+" declaration is dropped")
			}
		}
	}
	sortStrings(bad)
	r.Check(len(bad) == 0, clause, "R4 DECISION-TABLE", key, c.pos(loop.Pos()),
		"%token → parseTokendef, %left/%right/%nonassoc/%precedence → parsePrecList, %type → parseTypeList, %start → parseStartSymbol; each result is kept",
		strings.Join(bad, "; "))
}

// c01StackPrimitives — the LR stack of every Go skeleton: PushStateSym stores the entry at the pointer (appending
// when the pointer is at the end) and then raises the pointer by one; PopStateSym(n) lowers the pointer by n and does
// nothing else; the driver reads the top as the entry at pointer − 1. The two hand-written templates are compared
// with each other by C08.a; this rule states what both must be, so that a change made consistently to both copies
// is noticed as well.
func c01StackPrimitives(c *Ctx, r *Report, clause string, st *Staged) {
	norm := func(s string) string {
		s = strings.NewReplacer("main.", "", "c.StackSym", "STACK", "c.Stackpos", "SP", "StateSymStack", "STACK", "StackPointer", "SP").Replace(s)
		return s
	}
	for _, sk := range quickSkeletons(st) {
		if sk.File == nil || sk.Pkg == nil || len(sk.TypeErs) > 0 {
			continue
		}
		name := "skeleton " + sk.V.Name
		recv := map[bool]string{true: "Context", false: ""}[sk.V.Object]
		// push
		if push := sk.FuncDecl(recv, "PushStateSym"); push == nil {
			r.Fail(clause, "R4 DECISION-TABLE", name+"/PushStateSym", sk.pos(token.NoPos), "no PushStateSym")
		} else {
			pe := newPathEnum(sk.Info)
			if ps := paramObjs(sk.Info, push); len(ps) == 1 {
				pe.rename[ps[0]] = "state" // whatever the parameter is called
			}
			paths, err := pe.Enumerate(push.Body.List)
			why := ""
			if err != nil {
				why = err.Error()
			}
			if len(paths) != 2 {
				why = fmt.Sprintf("%d paths, expected the two cases `pointer at the end` / `pointer inside`", len(paths))
			}
			for _, p := range paths {
				atEnd, decided := false, false
				for _, cd := range p.Conds {
					a := norm(cd.Atom.String())
					switch a {
					case "(SP >= len(STACK))":
						decided, atEnd = true, cd.Pol
					case "(SP < len(STACK))":
						decided, atEnd = true, !cd.Pol
					case "(SP == len(STACK))":
						decided, atEnd = true, cd.Pol
					}
				}
				if !decided {
					why = "the store is not chosen by comparing the pointer with the stack's length (`pointer >= len`)"
					continue
				}
				var stores []string
				for _, e := range p.Effects {
					if e.Kind == "store" {
						stores = append(stores, norm(e.String()))
					}
				}
				want := "STACK[SP] = *state"
				if atEnd {
					want = "STACK = append(STACK, *state)"
				}
				ok := len(stores) == 2 && stores[0] == want && (stores[1] == "SP = (SP + 1)")
				if !ok {
					why = fmt.Sprintf("with the pointer %s the push performs %v, expected [%s, SP = (SP + 1)]", map[bool]string{true: "at the end", false: "inside the stack"}[atEnd], stores, want)
				}
			}
			r.Check(why == "", clause, "R4 DECISION-TABLE", name+"/PushStateSym", sk.pos(push.Pos()),
				"push: entry stored at the pointer (appended when the pointer is at the end), then pointer + 1", why)
		}
		// pop
		if pop := sk.FuncDecl(recv, "PopStateSym"); pop == nil {
			r.Fail(clause, "R4 DECISION-TABLE", name+"/PopStateSym", sk.pos(token.NoPos), "no PopStateSym")
		} else {
			pe := newPathEnum(sk.Info)
			if ps := paramObjs(sk.Info, pop); len(ps) == 1 {
				pe.rename[ps[0]] = "num"
			}
			paths, err := pe.Enumerate(pop.Body.List)
			why := ""
			if err != nil || len(paths) != 1 {
				why = "PopStateSym is not straight-line"
			} else {
				var stores []string
				for _, e := range paths[0].Effects {
					if e.Kind == "store" {
						stores = append(stores, norm(e.String()))
					}
				}
				if len(stores) != 1 || stores[0] != "SP = (SP - num)" {
					why = fmt.Sprintf("pop(num) performs %v, expected [SP = (SP - num)]", stores)
				}
			}
			r.Check(why == "", clause, "R4 DECISION-TABLE", name+"/PopStateSym", sk.pos(pop.Pos()), "pop(n): pointer − n and nothing else", why)
		}
		// top of stack in the driver
		if parser := sk.FuncDecl(recv, "Parser"); parser != nil {
			nTop, bad := 0, ""
			ast.Inspect(parser.Body, func(n ast.Node) bool {
				// every entry the driver looks at — through a pointer (`&stack[i]`) or directly (`stack[i].Action(…)`)
				ix, ok := n.(*ast.IndexExpr)
				if !ok {
					return true
				}
				if norm(printNode(sk.Fset, ix.X)) != "STACK" {
					return true
				}
				nTop++
				if got := norm(oneLine(printNode(sk.Fset, ix.Index))); got != "SP-1" && got != "SP - 1" {
					bad = "the driver takes stack[" + got + "] as the top entry, the top is at pointer − 1"
				}
				return true
			})
			r.Check(bad == "" && nTop >= 2, clause, "R13 AFFINE", name+"/Parser/top-is-pointer-minus-1", sk.pos(parser.Pos()),
				fmt.Sprintf("all %d places where the driver looks at the top of the stack use the entry at pointer − 1", nTop), bad)
			// loop guards: stop on pointer == 0 or pointer > len (never true in a sound run)
			d := analyseDriver(sk)
			if d.err == "" && d.loop != nil {
				var guards []string
				for _, stt := range d.loop.Body.List {
					is, ok := stt.(*ast.IfStmt)
					if !ok || len(is.Body.List) != 1 {
						break
					}
					if br, ok := is.Body.List[0].(*ast.BranchStmt); !ok || br.Tok != token.BREAK {
						break
					}
					// a disjunction leaves the loop for each of its alternatives
					var disj func(e ast.Expr)
					disj = func(e ast.Expr) {
						e = unparen(e)
						if be, ok := e.(*ast.BinaryExpr); ok && be.Op == token.LOR {
							disj(be.X)
							disj(be.Y)
							return
						}
						guards = append(guards, norm(oneLine(printNode(sk.Fset, e))))
					}
					disj(is.Cond)
				}
				okG := true
				for _, g := range guards {
					if g != "SP == 0" && g != "SP > len(STACK)" {
						okG = false
					}
				}
				r.Check(okG, clause, "R4 DECISION-TABLE", name+"/Parser/loop-guards", sk.pos(d.loop.Pos()),
					fmt.Sprintf("the driver loop is left early only for an empty stack or a pointer beyond the stack (%v): neither happens while entries are on the stack", guards),
					fmt.Sprintf("the driver loop's early exits are %v: a parse can end silently (returning nil) in an ordinary configuration", guards))
			}
		}
	}
}

// c01StackPrimitivesTS — the same statement for the TypeScript driver (token level): PushStateSym, PopStateSym, the
// loop header of Parser and the two reads of the top entry are compared with their canonical forms.
func c01StackPrimitivesTS(c *Ctx, r *Report, clause string, st *Staged) {
	if st.TS == nil || st.TS.LexEr != "" {
		return
	}
	want := map[string]string{
		"PushStateSym": "if(StackPointer>=StateSymStack.length){expr StateSymStack.push(state);}else{StateSymStack[StackPointer]=state;}StackPointer++;",
		"PopStateSym":  "StackPointer-=num;",
	}
	for name, w := range want {
		f := st.TS.Funcs[name]
		if f == nil {
			r.Fail(clause, "TS DRIVER", "typescript/"+name, "Builder/TsGenCode.go", "no function "+name+" in the TypeScript output")
			continue
		}
		got := tsCanon(f.Body)
		r.Check(got == w, clause, "TS DRIVER", "typescript/"+name, "Builder/TsGenCode.go (StateFunc literal)",
			name+" is `"+w+"` (token-level comparison)", name+" is `"+got+"`, expected `"+w+"`")
	}
	if f := st.TS.Funcs["Parser"]; f != nil {
		got := tsCanon(f.Body)
		why := ""
		head := "while(true){if(StackPointer==0){break ;}if(StackPointer>StateSymStack.length){break ;}let state=StateSymStack[StackPointer-1];"
		switch {
		case !strings.Contains(got, head):
			why = "the driver loop does not start with `while(true){ if(pointer==0) break; if(pointer>length) break; let state = stack[pointer-1] …`"
		case !strings.Contains(got, "let SymTy=ReduceFunc(-action);state=StateSymStack[StackPointer-1];"):
			why = "after ReduceFunc the top entry is not re-read as stack[pointer-1]"
		case strings.Count(got, "StateSymStack[") != 2:
			why = "the driver reads the stack at other places than the two top-of-stack reads"
		}
		r.Check(why == "", clause, "TS DRIVER", "typescript/Parser/loop-head-and-top", "Builder/TsGenCode.go (StateFunc literal)",
			"endless loop left only for an empty / overrun stack; the top entry is stack[pointer−1], re-read after a reduction", why)
	}
	// the StateSym constructor stores both of its arguments (class members are not in the function table: token level)
	{
		var b strings.Builder
		for _, t := range st.TS.Toks {
			b.WriteString(t.text)
		}
		src := b.String()
		i := strings.Index(src, "constructor(")
		ok := false
		got := ""
		if i >= 0 {
			j := strings.Index(src[i:], "}")
			if j > 0 {
				got = src[i : i+j+1]
				ok = strings.Contains(got, "this.Yystate=Yystate") && strings.Contains(got, "this.YySymIndex=YySymIndex")
			}
		}
		r.Check(ok, clause, "TS DRIVER", "typescript/StateSym.constructor", "Builder/TsGenCode.go",
			"new StateSym(state, symbol) stores both arguments", "the StateSym constructor is `"+got+"`: the state or the symbol of a new entry is lost")
	}
}

// cursorParamOf: the call goes to a repository method whose body is straight-line assignments and sets the receiver's
// `end` field exactly once, from one of its parameters; the index of that parameter, or −1.
func cursorParamOf(c *Ctx, info *types.Info, call *ast.CallExpr) int {
	fn := callee(info, call)
	if fn == nil {
		return -1
	}
	ref := c.FuncOf(fn)
	if ref == nil || ref.Decl.Recv == nil {
		return -1
	}
	hinfo := ref.Pkg.TypesInfo
	ps := paramObjs(hinfo, ref.Decl)
	idx, n := -1, 0
	for _, st := range ref.Decl.Body.List {
		as, ok := st.(*ast.AssignStmt)
		if !ok || len(as.Lhs) != len(as.Rhs) || as.Tok != token.ASSIGN {
			return -1
		}
		for k, l := range as.Lhs {
			se, ok := unparen(l).(*ast.SelectorExpr)
			if !ok || !fieldNamed(hinfo, se, "end") {
				continue
			}
			n++
			o := identObj(hinfo, as.Rhs[k])
			for i, p := range ps {
				if p == o {
					idx = i
				}
			}
		}
	}
	if n != 1 {
		return -1
	}
	return idx
}

// idTableCreatedOnce — the identifier table maps a name to ONE Idendity for the whole run: tags, codes and precedence
// entries are merged into it and other tables keep pointers to it. Every store `…idsymtabl[K] = V` must therefore be
// guarded by `…idsymtabl[K] == nil` for the same key K (directly, or as the else-arm of `if in := …[K]; in != nil`):
// a store that can replace an existing entry drops what earlier declarations put there (a %type tag, an explicit code)
// and leaves the precedence list pointing at the old object.
func idTableCreatedOnce(c *Ctx, r *Report, clause string) {
	n, bad := 0, []string{}
	for _, f := range c.AllFuncs() {
		if f.Pkg.Types.Name() != "parser" {
			continue
		}
		info := f.Pkg.TypesInfo
		defs := newDefs(info)
		defs.scan(f.Decl.Body)
		pc := &pathCtx{info: info, defs: defs, root: f.Decl.Body}
		ast.Inspect(f.Decl.Body, func(nd ast.Node) bool {
			as, ok := nd.(*ast.AssignStmt)
			if !ok || as.Tok != token.ASSIGN {
				return true
			}
			for _, l := range as.Lhs {
				ix, ok := unparen(l).(*ast.IndexExpr)
				if !ok || !fieldNamed(info, ix.X, "idsymtabl") {
					continue
				}
				n++
				want := "(" + pc.path(ix) + " == nil)"
				found := false
				atoms := guardAtoms(c, f, as)
				for _, a := range atoms {
					if a == want {
						found = true
					}
				}
				if !found {
					bad = append(bad, fmt.Sprintf("%s at %s stores under guards %v, none of which is %s", f.Name, c.pos(as.Pos()), atoms, want))
				}
			}
			return true
		})
	}
	sortStrings(bad)
	if n < 4 {
		r.Undecided(clause, "R4 WHO-WRITES", "Parser/identifier-table-entries-are-created-once", "Parser/Vistor.go", fmt.Sprintf("only %d stores into idsymtabl found (4 confirmed by hand)", n))
		return
	}
	r.Check(len(bad) == 0, clause, "R4 WHO-WRITES", "Parser/identifier-table-entries-are-created-once", "Parser/Vistor.go",
		fmt.Sprintf("all %d stores into the identifier table are guarded by `entry for the same name == nil`: an existing identifier (with its tag, code, precedence) is never replaced", n),
		strings.Join(bad, "; "))
}

// c10ActionExtent — the text of an action `{ … }` is delimited by brace balance alone (C10.b): the scanning loop of
// ActionQuoteState looks at exactly one rune per iteration, `{` raises the depth, `}` lowers it, nothing else touches
// it, the scan stops exactly when the depth returns to 0 and the token emitted then spans everything consumed. Any
// other consumption inside the loop (skipping "comments", "strings", blanks …) makes the extent of an action depend
// on what the action's text looks like — the same action in another layout would end elsewhere.
func c10ActionExtent(c *Ctx, r *Report) {
	const cl = "C10.b"
	f := c.need(r, cl, "Parser", "", "ActionQuoteState")
	if f == nil {
		return
	}
	info := f.Pkg.TypesInfo
	key := f.Name + "/extent-is-brace-balance-one-rune-at-a-time"
	var loop *ast.ForStmt
	var depth types.Object
	init1 := false
	for _, st := range f.Decl.Body.List {
		switch x := st.(type) {
		case *ast.ForStmt:
			if loop == nil {
				loop = x
			}
		case *ast.LabeledStmt:
			if fs, ok := x.Stmt.(*ast.ForStmt); ok && loop == nil {
				loop = fs
			}
		case *ast.AssignStmt:
			if loop == nil && len(x.Lhs) == 1 && len(x.Rhs) == 1 {
				if v, isC := constInt(info, x.Rhs[0]); isC && v == 1 {
					depth = identObj(info, x.Lhs[0])
					init1 = true
				}
			}
		}
	}
	// the depth may also be the loop's own variable: `for depth := 1; depth > 0; { … }`
	if loop != nil && depth == nil {
		if as, ok := loop.Init.(*ast.AssignStmt); ok && len(as.Lhs) == 1 && len(as.Rhs) == 1 {
			if v, isC := constInt(info, as.Rhs[0]); isC && v == 1 {
				depth = identObj(info, as.Lhs[0])
				init1 = true
			}
		}
	} else if loop != nil && loop.Init != nil {
		init1 = false
	}
	// how the scan ends: `if depth == 0 { break }` inside an endless loop, or the loop condition `depth > 0` / `depth != 0`
	condForm := "none"
	if loop != nil && loop.Cond != nil {
		condForm = "other"
		if be, ok := unparen(loop.Cond).(*ast.BinaryExpr); ok && depth != nil && identObj(info, be.X) == depth && isConstZero(info, be.Y) && (be.Op == token.GTR || be.Op == token.NEQ) {
			condForm = "positive"
		}
	}
	if loop == nil || depth == nil || !init1 || condForm == "other" || loop.Post != nil {
		r.Undecided(cl, "R4 DECISION-TABLE", key, c.pos(f.Decl.Pos()), "expected `depth := 1; for { … if depth == 0 { break } … }` or `for depth := 1; depth > 0; { … }`")
		return
	}
	// cursor movement inside the loop: exactly one next(), nothing else that moves the cursor
	nNext, other := 0, ""
	ast.Inspect(loop.Body, func(n ast.Node) bool {
		call, ok := n.(*ast.CallExpr)
		if !ok {
			return true
		}
		fn := callee(info, call)
		if fn == nil {
			return true
		}
		switch fn.Name() {
		case "next":
			nNext++
		case "backup", "backup2", "acceptRun", "acceptWord", "acceptOnlyAlphaWord", "accept", "ignore", "emit", "emitValue":
			other = fn.Name()
		}
		return true
	})
	nested := false
	ast.Inspect(loop.Body, func(n ast.Node) bool {
		switch n.(type) {
		case *ast.ForStmt, *ast.RangeStmt:
			nested = true
		}
		return true
	})
	why := ""
	switch {
	case nested:
		why = "the scanning loop contains another loop: more than one rune can be consumed per step, so part of the action's text is not looked at for braces"
	case nNext != 1:
		why = fmt.Sprintf("the scanning loop calls next() %d times per iteration, expected once", nNext)
	case other != "":
		why = "the scanning loop also calls " + other + "(), which moves the cursor or the token start inside the action"
	}
	if why == "" {
		pe := newPathEnum(info)
		pe.rename[depth] = "DEPTH"
		paths, err := pe.Enumerate(loop.Body.List)
		if err != nil {
			why = err.Error()
		}
		val := func(ch int64) func(t *Term) (constant.Value, bool) {
			return func(t *Term) (constant.Value, bool) {
				if t.Op == "call" && strings.HasSuffix(t.Name, "lexer).next") {
					return constant.MakeInt64(ch), true
				}
				return nil, false
			}
		}
		for _, cs := range []struct {
			name string
			ch   int64
			want string
		}{{"{", '{', "(DEPTH + 1)"}, {"}", '}', "(DEPTH - 1)"}, {"other", 'x', ""}, {"quote", '"', ""}, {"slash", '/', ""}, {"newline", '\n', ""}} {
			hit := selectPaths(paths, val(cs.ch))
			if len(hit) == 0 && why == "" {
				why = "no path for the character class " + cs.name
			}
			for _, p := range hit {
				got := ""
				if t := p.Env[depth]; t != nil {
					got = t.String()
				}
				if got == "DEPTH" {
					got = ""
				}
				if got != cs.want {
					why = fmt.Sprintf("on %s the depth becomes %q, expected %q", cs.name, got, cs.want)
				}
				// the zero test
				zero, tested := false, false
				for _, cd := range p.Conds {
					s := cd.Atom.String()
					if !strings.Contains(s, "DEPTH") {
						continue
					}
					// the depth never goes below 0 inside the scan: `== 0`, `<= 0`, `< 1` say "zero", `> 0`, `!= 0`, `>= 1` say "not zero"
					switch {
					case strings.HasSuffix(s, " == 0)"), strings.HasSuffix(s, " <= 0)"), strings.HasSuffix(s, " < 1)"):
						tested, zero = true, cd.Pol
					case strings.HasSuffix(s, " > 0)"), strings.HasSuffix(s, " != 0)"), strings.HasSuffix(s, " >= 1)"):
						tested, zero = true, !cd.Pol
					}
				}
				if condForm == "positive" {
					// the loop condition ends the scan when the depth is 0: the body must not leave on its own
					if p.Kind != "fall" && p.Kind != "continue" {
						why = "on " + cs.name + " the body leaves the scan itself (path ends in " + p.Kind + ") although the loop condition decides the end"
					}
					continue
				}
				if !tested {
					why = "an iteration on " + cs.name + " does not test the depth against 0"
					continue
				}
				if cs.name != "}" && zero {
					continue // the depth is ≥ 1 before the step, so this arm is not reachable for a rune other than `}`
				}
				if zero != (p.Kind == "break") {
					why = "on " + cs.name + " the scan does not stop exactly when the depth is back to 0 (path ends in " + p.Kind + ")"
				}
			}
		}
	}
	// after the loop: emit(ActionQuote) — the token spans start..cursor
	emits := false
	for _, st := range f.Decl.Body.List {
		if st.Pos() < loop.End() {
			continue
		}
		if es, ok := st.(*ast.ExprStmt); ok {
			if call, ok := es.X.(*ast.CallExpr); ok && len(call.Args) == 1 {
				if fn := callee(info, call); fn != nil && fn.Name() == "emit" {
					if kv, ok := constString(info, call.Args[0]); ok && kv == kindConsts(c)["ActionQuote"] {
						emits = true
					}
				}
			}
		}
	}
	if why == "" && !emits {
		why = "the action token is not emitted right after the scan (emit(ActionQuote))"
	}
	r.Check(why == "", cl, "R4 DECISION-TABLE", key, c.pos(loop.Pos()),
		"one rune per step; `{` → depth+1, `}` → depth−1 and stop exactly at 0, every other rune (quotes, slashes, newlines included) leaves the depth alone; the token is everything consumed", why)
}

// directiveArms lists the keyword arms of DirectiveOtherState: `if l.accept…("word") { … }` statements at function
// level (with or without else-if chaining) or the cases of a tagless switch at function level. kind is the constant
// value passed to emit in the arm ("" if the arm emits nothing, e.g. %union); exclusive says that no later arm can be
// tried after this one matched.
type directiveArm struct {
	word, kind string
	exclusive  bool
	pos        token.Pos
}

func directiveArms(f *FuncRef) []directiveArm {
	info := f.Pkg.TypesInfo
	var arms []directiveArm
	wordOf := func(cond ast.Expr) (string, bool) {
		call, ok := unparen(cond).(*ast.CallExpr)
		if !ok || len(call.Args) != 1 {
			return "", false
		}
		fn := callee(info, call)
		w, isC := constString(info, call.Args[0])
		if fn == nil || !strings.HasPrefix(fn.Name(), "accept") || !isC {
			return "", false
		}
		return w, true
	}
	emitOf := func(body []ast.Stmt) string {
		for _, bs := range body {
			if es, ok := bs.(*ast.ExprStmt); ok {
				if ec, ok := es.X.(*ast.CallExpr); ok && len(ec.Args) == 1 {
					if efn := callee(info, ec); efn != nil && efn.Name() == "emit" {
						if kv, ok := constString(info, ec.Args[0]); ok {
							return kv
						}
					}
				}
			}
		}
		return ""
	}
	endsInReturn := func(body []ast.Stmt) bool {
		if len(body) == 0 {
			return false
		}
		_, ok := body[len(body)-1].(*ast.ReturnStmt)
		return ok
	}
	list := f.Decl.Body.List
	for _, st := range list {
		// table form: `for _, d := range <package-level table> { if !accept…(d.word) { continue }; …; emit(d.kind); break }`
		if rs, ok := st.(*ast.RangeStmt); ok {
			arms = append(arms, directiveTableArms(f, rs)...)
		}
	}
	for i, st := range list {
		switch x := st.(type) {
		case *ast.IfStmt:
			// an if / else-if chain: every arm but those followed by later top-level keyword tests is exclusive
			laterKeyword := false
			for _, later := range list[i+1:] {
				switch y := later.(type) {
				case *ast.IfStmt:
					if _, ok := wordOf(y.Cond); ok {
						laterKeyword = true
					}
				case *ast.SwitchStmt:
					laterKeyword = true
				}
			}
			for cur := x; cur != nil; {
				if w, ok := wordOf(cur.Cond); ok && cur.Init == nil {
					arms = append(arms, directiveArm{word: w, kind: emitOf(cur.Body.List), exclusive: endsInReturn(cur.Body.List) || !laterKeyword, pos: cur.Pos()})
				}
				next, _ := cur.Else.(*ast.IfStmt)
				cur = next
			}
		case *ast.SwitchStmt:
			if x.Tag != nil || x.Init != nil {
				continue
			}
			laterKeyword := false
			for _, later := range list[i+1:] {
				switch y := later.(type) {
				case *ast.IfStmt:
					if _, ok := wordOf(y.Cond); ok {
						laterKeyword = true
					}
				case *ast.SwitchStmt:
					laterKeyword = true
				}
			}
			for _, cs := range x.Body.List {
				cc, ok := cs.(*ast.CaseClause)
				if !ok || len(cc.List) != 1 {
					continue
				}
				if w, ok := wordOf(cc.List[0]); ok {
					fallsThrough := false
					if n := len(cc.Body); n > 0 {
						if br, isB := cc.Body[n-1].(*ast.BranchStmt); isB && br.Tok == token.FALLTHROUGH {
							fallsThrough = true
						}
					}
					arms = append(arms, directiveArm{word: w, kind: emitOf(cc.Body), exclusive: !fallsThrough && (endsInReturn(cc.Body) || !laterKeyword), pos: cc.Pos()})
				}
			}
		}
	}
	return arms
}

// directiveTableArms: the keyword tests written as a loop over a package-level table of (word, kind) entries that
// nothing assigns. The arm of an entry is exclusive when the statements after a successful accept end in break/return.
func directiveTableArms(f *FuncRef, rs *ast.RangeStmt) []directiveArm {
	info := f.Pkg.TypesInfo
	tv, _ := identObj(info, rs.X).(*types.Var)
	elem := identObj(info, rs.Value)
	if tv == nil || elem == nil || tv.Pkg() == nil || tv.Parent() != tv.Pkg().Scope() {
		return nil
	}
	init, assigned := pkgVarInitOf(f, tv)
	lit, ok := init.(*ast.CompositeLit)
	if !ok || assigned {
		return nil
	}
	st, ok := elemStruct(tv.Type())
	if !ok {
		return nil
	}
	// which field feeds accept…(), which feeds emit()
	wordField, kindField := "", ""
	acceptNeg, exclusive := false, false
	var acceptIf *ast.IfStmt
	for _, bs := range rs.Body.List {
		if is, ok := bs.(*ast.IfStmt); ok && is.Init == nil && acceptIf == nil {
			cond := unparen(is.Cond)
			neg := false
			if u, ok := cond.(*ast.UnaryExpr); ok && u.Op == token.NOT {
				neg, cond = true, unparen(u.X)
			}
			if call, ok := cond.(*ast.CallExpr); ok && len(call.Args) == 1 {
				if fn := callee(info, call); fn != nil && strings.HasPrefix(fn.Name(), "accept") {
					if se, ok := unparen(call.Args[0]).(*ast.SelectorExpr); ok && identObj(info, se.X) == elem {
						wordField, acceptNeg, acceptIf = se.Sel.Name, neg, is
					}
				}
			}
		}
	}
	if acceptIf == nil {
		return nil
	}
	// the statements run after a successful accept
	var after []ast.Stmt
	if acceptNeg {
		if len(acceptIf.Body.List) != 1 {
			return nil
		}
		if br, ok := acceptIf.Body.List[0].(*ast.BranchStmt); !ok || br.Tok != token.CONTINUE {
			return nil
		}
		for i, bs := range rs.Body.List {
			if bs == ast.Stmt(acceptIf) {
				after = rs.Body.List[i+1:]
			}
		}
	} else {
		after = acceptIf.Body.List
	}
	ast.Inspect(&ast.BlockStmt{List: after}, func(n ast.Node) bool {
		if call, ok := n.(*ast.CallExpr); ok && len(call.Args) == 1 {
			if fn := callee(info, call); fn != nil && fn.Name() == "emit" {
				if se, ok := unparen(call.Args[0]).(*ast.SelectorExpr); ok && identObj(info, se.X) == elem {
					kindField = se.Sel.Name
				}
			}
		}
		return true
	})
	if n := len(after); n > 0 {
		switch x := after[n-1].(type) {
		case *ast.BranchStmt:
			exclusive = x.Tok == token.BREAK && x.Label == nil
		case *ast.ReturnStmt:
			exclusive = true
		}
	}
	if wordField == "" || kindField == "" {
		return nil
	}
	fieldIndex := func(name string) int {
		for i := 0; i < st.NumFields(); i++ {
			if st.Field(i).Name() == name {
				return i
			}
		}
		return -1
	}
	wi, ki := fieldIndex(wordField), fieldIndex(kindField)
	var arms []directiveArm
	for _, el := range lit.Elts {
		cl, ok := el.(*ast.CompositeLit)
		if !ok {
			return nil
		}
		get := func(idx int, name string) ast.Expr {
			for i, e := range cl.Elts {
				if kv, ok := e.(*ast.KeyValueExpr); ok {
					if id, ok := kv.Key.(*ast.Ident); ok && id.Name == name {
						return kv.Value
					}
					continue
				}
				if i == idx {
					return e
				}
			}
			return nil
		}
		we, ke := get(wi, wordField), get(ki, kindField)
		if we == nil || ke == nil {
			return nil
		}
		w, ok1 := constString(info, we)
		k, ok2 := constString(info, ke)
		if !ok1 || !ok2 {
			return nil
		}
		arms = append(arms, directiveArm{word: w, kind: k, exclusive: exclusive, pos: el.Pos()})
	}
	return arms
}

func elemStruct(t types.Type) (*types.Struct, bool) {
	switch u := t.Underlying().(type) {
	case *types.Slice:
		st, ok := u.Elem().Underlying().(*types.Struct)
		return st, ok
	case *types.Array:
		st, ok := u.Elem().Underlying().(*types.Struct)
		return st, ok
	}
	return nil, false
}

// pkgVarInitOf: initialiser of a package-level variable of f's package and whether any function assigns it or takes its address.
func pkgVarInitOf(f *FuncRef, v *types.Var) (ast.Expr, bool) {
	var init ast.Expr
	assigned := v.Exported() // an exported variable can be assigned from other packages: not treated as a constant table
	info := f.Pkg.TypesInfo
	for _, file := range f.Pkg.Syntax {
		for _, d := range file.Decls {
			switch x := d.(type) {
			case *ast.GenDecl:
				for _, sp := range x.Specs {
					if vs, ok := sp.(*ast.ValueSpec); ok {
						for i, n := range vs.Names {
							if info.Defs[n] == types.Object(v) && i < len(vs.Values) {
								init = vs.Values[i]
							}
						}
					}
				}
			case *ast.FuncDecl:
				if x.Body == nil {
					continue
				}
				ast.Inspect(x.Body, func(n ast.Node) bool {
					switch y := n.(type) {
					case *ast.AssignStmt:
						for _, l := range y.Lhs {
							root := unparen(l)
							for {
								if ix, ok := root.(*ast.IndexExpr); ok {
									root = unparen(ix.X)
									continue
								}
								if se, ok := root.(*ast.SelectorExpr); ok {
									if _, isField := info.Selections[se]; isField {
										root = unparen(se.X)
										continue
									}
								}
								break
							}
							if identObj(info, root) == types.Object(v) {
								assigned = true
							}
						}
					case *ast.UnaryExpr:
						if y.Op == token.AND {
							root := unparen(y.X)
							if ix, ok := root.(*ast.IndexExpr); ok {
								root = unparen(ix.X)
							}
							if identObj(info, root) == types.Object(v) {
								assigned = true
							}
						}
					}
					return true
				})
			}
		}
	}
	return init, assigned
}

// runeValuation: next()/peek() yield ch; unicode predicates, strings.ContainsRune(const, r) and HasPrefix on the
// remaining input (taken as "not a comment start") are folded for that rune.
func runeValuation(ch int64, tables ...map[string]map[int64]constant.Value) Valuation {
	var val Valuation
	val = func(t *Term) (constant.Value, bool) {
		if t.Op == "leaf" && t.Name == "RUNE" {
			return constant.MakeInt64(ch), true // a local renamed by the caller: the rune under test
		}
		if t.Op != "call" {
			return nil, false
		}
		// `v, ok := T[r]` on a constant package-level table: result0 = the entry (zero value when absent), result1 = presence
		if (t.Name == "result0" || t.Name == "result1") && len(t.Args) == 1 && t.Args[0].Op == "index" && len(t.Args[0].Args) == 2 && len(tables) > 0 {
			if base := t.Args[0].Args[0]; base.Op == "leaf" {
				if tab, ok := tables[0][base.Name]; ok {
					if k, ok := evalTerm(t.Args[0].Args[1], val); ok && k.Kind() == constant.Int {
						n, _ := constant.Int64Val(k)
						v, present := tab[n]
						if t.Name == "result1" {
							return constant.MakeBool(present), true
						}
						if present {
							return v, true
						}
						return constant.MakeString(""), true
					}
				}
			}
		}
		arg := func(i int) (rune, bool) {
			if i >= len(t.Args) {
				return 0, false
			}
			v, ok := evalTerm(t.Args[i], val)
			if !ok || v.Kind() != constant.Int {
				return 0, false
			}
			n, _ := constant.Int64Val(v)
			return rune(n), true
		}
		switch {
		case strings.HasSuffix(t.Name, "lexer).next"), strings.HasSuffix(t.Name, "lexer).peek"):
			return constant.MakeInt64(ch), true
		case t.Name == "strings.HasPrefix":
			return constant.MakeBool(false), true
		case t.Name == "unicode.IsLetter":
			if r, ok := arg(0); ok {
				return constant.MakeBool(r >= 0 && unicode.IsLetter(r)), true
			}
		case t.Name == "unicode.IsDigit":
			if r, ok := arg(0); ok {
				return constant.MakeBool(r >= 0 && unicode.IsDigit(r)), true
			}
		case t.Name == "unicode.IsSpace":
			if r, ok := arg(0); ok {
				return constant.MakeBool(r >= 0 && unicode.IsSpace(r)), true
			}
		case t.Name == "strings.ContainsRune":
			if len(t.Args) == 2 && t.Args[0].Op == "const" && t.Args[0].Val != nil && t.Args[0].Val.Kind() == constant.String {
				if r, ok := arg(1); ok {
					return constant.MakeBool(r >= 0 && strings.ContainsRune(constant.StringVal(t.Args[0].Val), r)), true
				}
			}
		}
		return nil, false
	}
	return val
}

// runeTables: the constant rune-keyed tables of f's package (a dispatch written as a map lookup), by qualified name.
func runeTables(f *FuncRef) map[string]map[int64]constant.Value {
	info := f.Pkg.TypesInfo
	tables := map[string]map[int64]constant.Value{}
	for _, file := range f.Pkg.Syntax {
		for _, d := range file.Decls {
			gd, ok := d.(*ast.GenDecl)
			if !ok {
				continue
			}
			for _, sp := range gd.Specs {
				vs, ok := sp.(*ast.ValueSpec)
				if !ok {
					continue
				}
				for i, nm := range vs.Names {
					v, ok := info.Defs[nm].(*types.Var)
					if !ok || i >= len(vs.Values) {
						continue
					}
					if _, isMap := v.Type().Underlying().(*types.Map); !isMap {
						continue
					}
					init, assigned := pkgVarInitOf(f, v)
					lit, ok := init.(*ast.CompositeLit)
					if !ok || assigned {
						continue
					}
					tab := map[int64]constant.Value{}
					good := true
					for _, el := range lit.Elts {
						kv, ok := el.(*ast.KeyValueExpr)
						if !ok {
							good = false
							break
						}
						k, okk := constInt(info, kv.Key)
						cv := constOf(info, kv.Value)
						if !okk || cv == nil {
							good = false
							break
						}
						tab[k] = cv
					}
					if good {
						tables[shortPkg(v.Pkg())+"."+v.Name()] = tab
					}
				}
			}
		}
	}
	return tables
}

// c10RootDispatch — which token class a character starts, and which characters continue an identifier (C10.d):
// rootState's dispatch, read as a decision table over representative runes, and the continuation condition of
// IdentifyState. A digit that does not start a number, a letter that does not start an identifier, or an identifier
// that stops at some digit splits one word of the grammar file into two tokens.
func c10RootDispatch(c *Ctx, r *Report, clause string) {
	kinds := kindConsts(c)
	if f := c.need(r, clause, "Parser", "", "rootState"); f != nil {
		info := f.Pkg.TypesInfo
		key := f.Name + "/character-class-to-token-class"
		pe := newPathEnum(info)
		paths, err := pe.Enumerate(f.Decl.Body.List)
		tables := runeTables(f)
		if err != nil {
			r.Undecided(clause, "R4 DECISION-TABLE", key, c.pos(f.Decl.Pos()), err.Error())
		} else {
			type want struct {
				runes string
				state string // returned state function ("" = rootState / nil as given by term)
				emit  string // kind emitted on the way ("" = none)
			}
			table := []want{
				{"abzAZqé", "IdentifyState", ""}, {"_", "IdentifyState", ""},
				{"0123456789", "rootState", "Number"},
				{"|", "rootState", "RuleOR"}, {":", "rootState", "RuleDefine"}, {";", "rootState", "RuleEnd"},
				{"<", "rootState", "LeftAngleBracket"}, {">", "rootState", "RightAngleBracket"},
				{" \t\n", "rootState", ""},
				{"%", "DirectiveState", ""}, {"$", "ActionState", ""}, {"'", "charaterState", ""}, {"\"", "stringKindState", ""}, {"{", "ActionQuoteState", ""},
			}
			var bad []string
			n := 0
			for _, w := range table {
				for _, ch := range w.runes {
					rv := runeValuation(int64(ch), tables)
					sel := selectPaths(paths, rv)
					if len(sel) == 0 {
						bad = append(bad, fmt.Sprintf("%q: no path", ch))
						continue
					}
					for _, p := range sel {
						n++
						state := ""
						if p.Kind == "return" && len(p.Vals) == 1 {
							state = p.Vals[0].String()
							if i := strings.LastIndex(state, "."); i >= 0 {
								state = state[i+1:]
							}
						}
						emitted := ""
						for _, e := range p.Effects {
							if e.Kind == "call" && strings.HasSuffix(e.Term.Name, "lexer).emit") && len(e.Term.Args) >= 1 {
								a := e.Term.Args[len(e.Term.Args)-1]
								if a.Val != nil && a.Val.Kind() == constant.String {
									emitted = constant.StringVal(a.Val)
								} else if v, ok := evalTerm(a, rv); ok && v.Kind() == constant.String {
									emitted = constant.StringVal(v)
								}
							}
							if e.Kind == "call" && strings.HasSuffix(e.Term.Name, "lexer).error") {
								emitted = "<error>"
							}
						}
						wantEmit := ""
						if w.emit != "" {
							wantEmit = kinds[w.emit]
						}
						if state != w.state || emitted != wantEmit {
							bad = append(bad, fmt.Sprintf("%q → state %s, emits %q (expected state %s, emits %q)", ch, state, emitted, w.state, wantEmit))
						}
					}
				}
			}
			sortStrings(bad)
			// two more rows that need a look at the calls on the path: a `-` starts a number and takes the digits that
			// follow with it (`%token EOF -1`); the end of the input emits the EOF token (it carries the offset at
			// which a missing epilogue starts) and ends the lexer
			for _, row := range []struct {
				ch       int64
				name     string
				mustCall string
				state    string
				emit     string
			}{{'-', "'-'", "acceptRun", "rootState", "Number"}, {eofRune(f), "end of input", "emitEOF", "nil", ""}} {
				rv := runeValuation(row.ch, tables)
				sel := selectPaths(paths, rv)
				if len(sel) == 0 {
					bad = append(bad, row.name+": no path")
				}
				for _, p := range sel {
					n++
					called, emitted := false, ""
					for _, e := range p.Effects {
						if e.Kind != "call" {
							continue
						}
						if strings.HasSuffix(e.Term.Name, "lexer)."+row.mustCall) {
							called = true
						}
						if strings.HasSuffix(e.Term.Name, "lexer).emit") && len(e.Term.Args) >= 1 {
							a := e.Term.Args[len(e.Term.Args)-1]
							if a.Val != nil && a.Val.Kind() == constant.String {
								emitted = constant.StringVal(a.Val)
							}
						}
					}
					state := ""
					if p.Kind == "return" && len(p.Vals) == 1 {
						state = p.Vals[0].String()
						if i := strings.LastIndex(state, "."); i >= 0 {
							state = state[i+1:]
						}
					}
					wantEmit := ""
					if row.emit != "" {
						wantEmit = kinds[row.emit]
					}
					if !called || state != row.state || emitted != wantEmit {
						bad = append(bad, fmt.Sprintf("%s → calls %s: %v, state %s, emits %q (expected a call of %s, state %s, emits %q)", row.name, row.mustCall, called, state, emitted, row.mustCall, row.state, wantEmit))
					}
				}
			}
			sortStrings(bad)
			r.Check(len(bad) == 0 && n >= 32, clause, "R4 DECISION-TABLE", key, c.pos(f.Decl.Pos()),
				fmt.Sprintf("%d representative runes: letters and `_` start an identifier, every digit 0–9 starts a number, punctuation emits its own token, the characters %%, $, quote and { hand over to their states, blanks are skipped", n),
				"the character classes of rootState deviate: "+strings.Join(bad, "; "))
		}
	}
	if f := c.need(r, clause, "Parser", "", "IdentifyState"); f != nil {
		info := f.Pkg.TypesInfo
		key := f.Name + "/identifier-continues-over-letters-digits-underscore"
		var loop *ast.ForStmt
		for _, st := range f.Decl.Body.List {
			if fs, ok := st.(*ast.ForStmt); ok && loop == nil {
				loop = fs
			}
		}
		// the continuation test: the loop's condition, or the negation of the `if … { break }` of an endless loop
		var contCond ast.Expr
		if loop != nil {
			contCond = loop.Cond
			if contCond == nil {
				for _, st := range loop.Body.List {
					if is, ok := st.(*ast.IfStmt); ok && is.Else == nil && is.Init == nil && len(is.Body.List) == 1 {
						if br, ok := is.Body.List[0].(*ast.BranchStmt); ok && br.Tok == token.BREAK && br.Label == nil && contCond == nil {
							contCond = &ast.UnaryExpr{OpPos: is.Cond.Pos(), Op: token.NOT, X: &ast.ParenExpr{Lparen: is.Cond.Pos(), X: is.Cond, Rparen: is.Cond.End()}}
						}
					}
				}
			}
		}
		if loop == nil || contCond == nil {
			r.Undecided(clause, "R4 DECISION-TABLE", key, c.pos(f.Decl.Pos()), "no `for <rune may continue an identifier>; r = l.next()` loop")
			return
		}
		// a condition held in a local first (`ok := isLetter(r) || …; if !ok { break }`) is that condition
		{
			defs := newDefs(info)
			defs.scan(f.Decl.Body)
			cc := cloneNode(info, contCond).(ast.Expr)
			wrap := &ast.ParenExpr{X: cc}
			for k := 0; k < 3; k++ {
				astutil.Apply(wrap, func(cur *astutil.Cursor) bool {
					id, ok := cur.Node().(*ast.Ident)
					if !ok {
						return true
					}
					o := info.Uses[id]
					v, isV := o.(*types.Var)
					if !isV || v.IsField() || defs.count[o] != 1 || defs.single[o] == nil {
						return true
					}
					if b, isB := v.Type().Underlying().(*types.Basic); !isB || b.Info()&types.IsBoolean == 0 {
						return true
					}
					cur.Replace(&ast.ParenExpr{X: cloneNode(info, defs.single[o]).(ast.Expr)})
					return false
				}, nil)
			}
			contCond = wrap.X
		}
		// the tested rune: a local assigned from l.next() (before the loop and in the post statement)
		pe := newPathEnum(info)
		ast.Inspect(contCond, func(n ast.Node) bool {
			if id, ok := n.(*ast.Ident); ok {
				if v, isV := objOf(info, id).(*types.Var); isV && !v.IsField() && v.Pkg() != nil && v.Parent() != v.Pkg().Scope() {
					pe.rename[v] = "RUNE"
				}
			}
			return true
		})
		paths, err := pe.Enumerate([]ast.Stmt{&ast.IfStmt{If: contCond.Pos(), Cond: contCond, Body: &ast.BlockStmt{Lbrace: contCond.Pos(), List: []ast.Stmt{&ast.ReturnStmt{Return: contCond.Pos()}}, Rbrace: contCond.End()}}})
		if err != nil {
			r.Undecided(clause, "R4 DECISION-TABLE", key, c.pos(loop.Pos()), err.Error())
			return
		}
		eval := func(ch rune) (bool, bool) {
			sel := selectPaths(paths, runeValuation(int64(ch)))
			if len(sel) != 1 {
				return false, false
			}
			return sel[0].Kind == "return", true
		}
		var bad []string
		for _, ch := range "azAZmé0123456789_" {
			if in, ok := eval(ch); !ok || !in {
				bad = append(bad, fmt.Sprintf("%q does not continue an identifier", ch))
			}
		}
		for _, ch := range " \t\n:;|<>{}%'\"$/()," {
			if in, ok := eval(ch); !ok || in {
				bad = append(bad, fmt.Sprintf("%q continues an identifier", ch))
			}
		}
		if in, ok := eval(-1); !ok || in {
			bad = append(bad, "end of input continues an identifier")
		}
		r.Check(len(bad) == 0, clause, "R4 DECISION-TABLE", key, c.pos(loop.Pos()),
			"an identifier continues over every letter, every digit 0–9 and `_`, and ends at blanks, punctuation and the end of input", strings.Join(bad, "; "))
	}
}

// c10UnionBraceLayout — layout between `%union` and its body (C10.d): the runes that may stand between the directive
// word and `{` are the runes rootState skips between any two tokens (its blank class, read off rootState itself),
// and the brace is recognised by itself — what follows it is the body's business. Decided on DirectiveUnionState:
// the first loop of the function continues on every blank and stops on `{`; the test that follows is a test of the
// next rune alone (a word matcher that also looks at the rune after the word rejects `%union {val int}`).
// Comments in that position are a separate obligation (comment-before-the-brace).
func c10UnionBraceLayout(c *Ctx, r *Report, clause string) {
	root := c.need(r, clause, "Parser", "", "rootState")
	f := c.need(r, clause, "Parser", "", "DirectiveUnionState")
	if root == nil || f == nil {
		return
	}
	// the blank class of rootState
	rpe := newPathEnum(root.Pkg.TypesInfo)
	rpaths, err := rpe.Enumerate(root.Decl.Body.List)
	if err != nil {
		r.Undecided(clause, "R4 DECISION-TABLE", f.Name+"/blanks-before-the-brace", c.pos(root.Decl.Pos()), err.Error())
		return
	}
	rtables := runeTables(root)
	isBlank := func(ch rune) bool {
		sel := selectPaths(rpaths, runeValuation(int64(ch), rtables))
		if len(sel) == 0 {
			return false
		}
		for _, p := range sel {
			if p.Kind != "return" || len(p.Vals) != 1 || !strings.HasSuffix(p.Vals[0].String(), "rootState") {
				return false
			}
			for _, e := range p.Effects {
				if e.Kind == "call" && (strings.HasSuffix(e.Term.Name, "lexer).emit") || strings.HasSuffix(e.Term.Name, "lexer).emitValue") || strings.HasSuffix(e.Term.Name, "lexer).error")) {
					return false
				}
			}
		}
		return true
	}
	var blanks []rune
	for _, ch := range " \t\n\r\f\v" {
		if isBlank(ch) {
			blanks = append(blanks, ch)
		}
	}
	// carriage return: a grammar file with CRLF line ends has the same layout as one with LF line ends
	r.Check(isBlank('\r'), "C10.e", "R4 DECISION-TABLE", root.Name+"/carriage-return-is-a-blank", c.pos(root.Decl.Pos()),
		"rootState skips a carriage return like the other blanks",
		"rootState does not skip '\\r': a grammar file saved with CRLF line ends is rejected (`not correct lexer`) although only its line breaks differ")
	info := f.Pkg.TypesInfo
	key := f.Name + "/blanks-before-the-brace"
	// the brace test: the first top-level `if … { l.error(…); return }`
	iBrace := -1
	for i, st := range f.Decl.Body.List {
		is, ok := st.(*ast.IfStmt)
		if !ok || is.Else != nil {
			continue
		}
		hasErr := false
		ast.Inspect(is.Body, func(n ast.Node) bool {
			if call, ok := n.(*ast.CallExpr); ok {
				if fn := callee(info, call); fn != nil && fn.Name() == "error" {
					hasErr = true
				}
			}
			return true
		})
		if hasErr && endsInExit(is.Body) {
			iBrace = i
			break
		}
	}
	if iBrace < 0 {
		r.Undecided(clause, "R4 DECISION-TABLE", key, c.pos(f.Decl.Pos()), "no `if <next rune is not {> { error }` at function level")
		return
	}
	var loop *ast.ForStmt
	for _, st := range f.Decl.Body.List[:iBrace] {
		if fs, ok := st.(*ast.ForStmt); ok && loop == nil {
			loop = fs
		}
	}
	renameRunes := func(pe *PathEnum, root ast.Node) {
		ast.Inspect(root, func(n ast.Node) bool {
			if id, ok := n.(*ast.Ident); ok {
				if v, isV := objOf(info, id).(*types.Var); isV && !v.IsField() && v.Pkg() != nil && v.Parent() != v.Pkg().Scope() {
					if b, isB := v.Type().Underlying().(*types.Basic); isB && b.Kind() == types.Int32 {
						pe.rename[v] = "RUNE"
					}
				}
			}
			return true
		})
	}
	var bad []string
	if loop == nil {
		bad = append(bad, "no loop skips blanks between the directive word and the brace")
	} else {
		body := append([]ast.Stmt{}, loop.Body.List...)
		if loop.Cond != nil {
			// `for c { … }` ≡ `for { if !c { break }; … }`
			neg := &ast.UnaryExpr{OpPos: loop.Cond.Pos(), Op: token.NOT, X: &ast.ParenExpr{Lparen: loop.Cond.Pos(), X: loop.Cond, Rparen: loop.Cond.End()}}
			brk := &ast.IfStmt{If: loop.Cond.Pos(), Cond: neg, Body: &ast.BlockStmt{Lbrace: loop.Cond.Pos(), List: []ast.Stmt{&ast.BranchStmt{TokPos: loop.Cond.Pos(), Tok: token.BREAK}}, Rbrace: loop.Cond.End()}}
			body = append([]ast.Stmt{brk}, body...)
		}
		pe := newPathEnum(info)
		renameRunes(pe, loop)
		paths, err := pe.Enumerate(body)
		if err != nil {
			r.Undecided(clause, "R4 DECISION-TABLE", key, c.pos(loop.Pos()), err.Error())
			return
		}
		leaves := func(ch rune) (stays, leavesLoop bool) {
			sel := selectPaths(paths, runeValuation(int64(ch)))
			if len(sel) == 0 {
				return false, false
			}
			stays, leavesLoop = true, true
			for _, p := range sel {
				if p.Kind == "break" || p.Kind == "return" || p.Kind == "goto" || p.Kind == "panic" {
					stays = false
				} else {
					leavesLoop = false
				}
			}
			return
		}
		for _, b := range blanks {
			if st, _ := leaves(b); !st {
				bad = append(bad, fmt.Sprintf("%q is a blank for rootState but is not skipped between `%%union` and `{`", b))
			}
		}
		if _, lv := leaves('{'); !lv {
			bad = append(bad, "the skipping loop does not stop at `{`")
		}
	}
	// the brace test itself: decided by the next rune alone
	{
		is := f.Decl.Body.List[iBrace].(*ast.IfStmt)
		pe := newPathEnum(info)
		renameRunes(pe, f.Decl.Body)
		paths, err := pe.Enumerate([]ast.Stmt{is})
		if err != nil {
			r.Undecided(clause, "R4 DECISION-TABLE", key, c.pos(is.Pos()), err.Error())
			return
		}
		errs := func(ch rune) (always, never bool) {
			always, never = true, true
			for _, p := range selectPaths(paths, runeValuation(int64(ch))) {
				if p.Kind == "return" || p.Kind == "panic" {
					never = false
				} else {
					always = false
				}
			}
			return
		}
		if _, never := errs('{'); !never {
			bad = append(bad, "after the blanks, `{` is not accepted by a test of the next rune alone ("+oneLine(printNode(c.Fset, is.Cond))+"): whether the body is entered also depends on what follows the brace, `%union {val int}` is rejected")
		}
		if always, _ := errs('x'); !always {
			bad = append(bad, "something other than `{` can open the union body")
		}
	}
	sortStrings(bad)
	r.Check(len(bad) == 0 && len(blanks) >= 3, clause, "R4 DECISION-TABLE", key, c.pos(f.Decl.Pos()),
		fmt.Sprintf("the %d blanks rootState skips (%q) are skipped between `%%union` and `{`, the loop stops at `{`, and the brace is recognised by itself", len(blanks), string(blanks)),
		"the layout between `%union` and its body matters: "+strings.Join(bad, "; "))
	// comments in that position
	{
		handles := false
		for _, st := range f.Decl.Body.List[:iBrace] {
			ast.Inspect(st, func(n ast.Node) bool {
				if call, ok := n.(*ast.CallExpr); ok {
					if fn := callee(info, call); fn != nil && (fn.Name() == "CommentState" || fn.FullName() == "strings.HasPrefix") {
						handles = true
					}
				}
				return true
			})
		}
		r.Check(handles, "C10.e", "R4 DECISION-TABLE", f.Name+"/comment-before-the-brace", c.pos(f.Decl.Pos()),
			"a comment between `%union` and `{` is recognised",
			"a comment between `%union` and `{` (`%union /* values */ {`, or `%union // values` with the brace on the next line) is not skipped: the grammar is rejected as `not correct token` although only a comment was added")
	}
}

// c10CharLiteralExtent — a character literal is read through its closing quote (C10.d, C11): every path of
// charaterState that emits a token has consumed the literal's characters AND the quote that ends it — two runes for
// a plain character, three when the first one is the backslash. A path that emits one rune short leaves the closing
// quote in the input, where it starts another literal.
func c10CharLiteralExtent(c *Ctx, r *Report, clause string) {
	f := c.need(r, clause, "Parser", "", "charaterState")
	if f == nil {
		return
	}
	info := f.Pkg.TypesInfo
	key := f.Name + "/literal-is-read-through-its-closing-quote"
	pe := newPathEnum(info)
	paths, err := pe.Enumerate(f.Decl.Body.List)
	if err != nil {
		r.Undecided(clause, "R2 TOKEN-BOUNDARY", key, c.pos(f.Decl.Pos()), err.Error())
		return
	}
	var bad []string
	nEmit := 0
	for _, esc := range []bool{false, true} {
		// the first rune: a backslash or an ordinary character; the runes after it: whatever lets the path emit
		first := int64('a')
		if esc {
			first = '\\'
		}
		for _, p := range paths {
			emits := false
			nNext := 0
			for _, e := range p.Effects {
				if e.Kind != "call" {
					continue
				}
				if strings.HasSuffix(e.Term.Name, "lexer).next") {
					nNext++
				}
				if strings.HasSuffix(e.Term.Name, "lexer).emitValue") || strings.HasSuffix(e.Term.Name, "lexer).emit") {
					emits = true
				}
			}
			if !emits {
				continue
			}
			// is the path consistent with the first rune being `first`? evaluate only the conditions on the first next()
			consistent := true
			for _, cd := range p.Conds {
				if cd.Atom.Op != "cmp" || len(cd.Atom.Args) != 2 {
					continue
				}
				a, b := cd.Atom.Args[0], cd.Atom.Args[1]
				if a.Op == "call" && strings.HasSuffix(a.Name, "lexer).next") && a.Node == firstNextCall(f) && b.Val != nil && b.Val.Kind() == constant.Int {
					v, _ := constant.Int64Val(b.Val)
					eq := first == v
					if cd.Atom.Name == "!=" {
						eq = !eq
					}
					if cd.Atom.Name == "==" || cd.Atom.Name == "!=" {
						if eq != cd.Pol {
							consistent = false
						}
					}
				}
			}
			if !consistent {
				continue
			}
			nEmit++
			want := 2
			if esc {
				want = 3
			}
			if nNext != want {
				kind := "a plain character"
				if esc {
					kind = "an escaped character"
				}
				bad = append(bad, fmt.Sprintf("a path that emits the token for %s consumes %d rune(s), the literal's text has %d (characters and the closing quote)", kind, nNext, want))
			}
		}
	}
	sortStrings(bad)
	r.Check(len(bad) == 0 && nEmit >= 2, clause, "R2 TOKEN-BOUNDARY", key, c.pos(f.Decl.Pos()),
		fmt.Sprintf("%d emitting path(s): two runes for 'c', three for an escaped character — the closing quote is consumed before the token is emitted", nEmit),
		"a character literal is emitted before its closing quote is consumed: "+strings.Join(dedupStrings(bad), "; "))
}

// firstNextCall: the first call of (*lexer).next in source order.
func firstNextCall(f *FuncRef) ast.Node {
	var first ast.Node
	ast.Inspect(f.Decl.Body, func(n ast.Node) bool {
		if call, ok := n.(*ast.CallExpr); ok && first == nil {
			if fn := callee(f.Pkg.TypesInfo, call); fn != nil && fn.Name() == "next" {
				first = call
			}
		}
		return first == nil
	})
	return first
}

// eofRune: the value of the lexer package's `eof` constant (−1 when it cannot be found).
func eofRune(f *FuncRef) int64 {
	if c, ok := f.Pkg.Types.Scope().Lookup("eof").(*types.Const); ok {
		if v, ok := constant.Int64Val(constant.ToInt(c.Val())); ok {
			return v
		}
	}
	return -1
}

// c11LiteralValue: the token value of a character literal is the character it denotes — 'c' gives "c", an escaped
// '\x' gives the escaped character without its backslash. All three numbering sites take the value's first rune as
// the token's code and genTempName(value) as the symbol's name, so a value that still carries the backslash numbers
// '\'' as 92. Decided per emitting path of charaterState (plain / escaped, as in c10CharLiteralExtent): the value is
// (a concatenation of "" and) the rune of the right next() call, the constant that rune was compared equal to, or
// the input slice from just behind that position to just before the closing quote.
func c11LiteralValue(c *Ctx, r *Report, clause string) {
	f := c.need(r, clause, "Parser", "", "charaterState")
	if f == nil {
		return
	}
	info := f.Pkg.TypesInfo
	key := f.Name + "/literal-value-is-the-character"
	paths, err := newPathEnum(info).Enumerate(f.Decl.Body.List)
	if err != nil {
		r.Undecided(clause, "R1 PROVENANCE", key, c.pos(f.Decl.Pos()), err.Error())
		return
	}
	isNext := func(t *Term) bool { return t != nil && t.Op == "call" && strings.HasSuffix(t.Name, "lexer).next") }
	var bad, undecided []string
	nEmit := 0
	for _, esc := range []bool{false, true} {
		first := int64('a')
		kind := "a plain character"
		if esc {
			first, kind = '\\', "an escaped character"
		}
		for _, p := range paths {
			var nexts []ast.Node
			var value *Term
			for _, e := range p.Effects {
				if e.Kind != "call" {
					continue
				}
				if isNext(e.Term) {
					nexts = append(nexts, e.Term.Node)
				}
				if strings.HasSuffix(e.Term.Name, "lexer).emitValue") && len(e.Term.Args) == 3 {
					value = e.Term.Args[2]
				}
			}
			if value == nil || len(nexts) == 0 {
				continue
			}
			// consistent with the first rune? and which constant is each later rune known to equal?
			consistent := true
			equals := map[ast.Node]int64{}
			for _, cd := range p.Conds {
				if cd.Atom.Op != "cmp" || len(cd.Atom.Args) != 2 {
					continue
				}
				a, b := cd.Atom.Args[0], cd.Atom.Args[1]
				if !isNext(a) || b.Val == nil || b.Val.Kind() != constant.Int || (cd.Atom.Name != "==" && cd.Atom.Name != "!=") {
					continue
				}
				v, _ := constant.Int64Val(b.Val)
				isEq := (cd.Atom.Name == "==") == cd.Pol
				if a.Node == nexts[0] {
					if (first == v) != isEq {
						consistent = false
					}
				} else if isEq {
					equals[a.Node] = v
				}
			}
			if !consistent {
				continue
			}
			nEmit++
			at := 0 // index of the next() call that reads the denoted character
			if esc {
				at = 1
			}
			if len(nexts) <= at {
				bad = append(bad, fmt.Sprintf("the token for %s is emitted before the character was read", kind))
				continue
			}
			// strip concatenations with the empty string
			for value.Op == "arith" && value.Name == "+" && len(value.Args) == 2 {
				if s, ok := termString(value.Args[0]); ok && s == "" {
					value = value.Args[1]
				} else if s, ok := termString(value.Args[1]); ok && s == "" {
					value = value.Args[0]
				} else {
					break
				}
			}
			switch {
			case isNext(value):
				if value.Node != nexts[at] {
					bad = append(bad, fmt.Sprintf("the value of %s is the rune of another next() call than the one that reads the character", kind))
				}
			case value.Op == "const":
				s, ok := termString(value)
				want, known := equals[nexts[at]]
				if !ok || !known || len([]rune(s)) != 1 || int64([]rune(s)[0]) != want {
					bad = append(bad, fmt.Sprintf("the value of %s is the constant %s, which is not what the character was compared equal to", kind, value.String()))
				}
			case value.Op == "slice" && len(value.Args) == 3 && value.Args[1] != nil && value.Args[2] != nil:
				lo, hi := value.Args[1].String(), value.Args[2].String()
				wantLo := fmt.Sprintf("(l.start + %d)", at+1)
				recv := "l"
				if f.Decl.Type.Params != nil && len(f.Decl.Type.Params.List) == 1 && len(f.Decl.Type.Params.List[0].Names) == 1 {
					recv = f.Decl.Type.Params.List[0].Names[0].Name
				}
				wantLo = strings.Replace(wantLo, "l.", recv+".", 1)
				wantHi := "(" + recv + ".end - 1)"
				if !strings.HasSuffix(value.Args[0].String(), ".input") {
					undecided = append(undecided, "the value of "+kind+" is a slice of "+value.Args[0].String())
				} else if lo != wantLo || hi != wantHi {
					bad = append(bad, fmt.Sprintf("the value of %s is input[%s:%s]; the denoted character is input[%s:%s] (%s)", kind, lo, hi, wantLo, wantHi, map[bool]string{true: "the opening quote and the backslash are not part of it", false: "the opening quote is not part of it"}[esc]))
				}
			default:
				undecided = append(undecided, "the value of "+kind+" is "+value.String())
			}
		}
	}
	if len(undecided) > 0 && len(bad) == 0 {
		r.Undecided(clause, "R1 PROVENANCE", key, c.pos(f.Decl.Pos()), strings.Join(dedupStrings(undecided), "; "))
		return
	}
	sortStrings(bad)
	r.Check(len(bad) == 0 && nEmit >= 2, clause, "R1 PROVENANCE", key, c.pos(f.Decl.Pos()),
		fmt.Sprintf("%d emitting path(s): the value is the denoted character — the rune read for 'c', the escaped character without its backslash for '\\c'", nEmit),
		"a character literal's token value is not the character it denotes, and its first rune is the token's code: "+strings.Join(dedupStrings(bad), "; "))
}

func termString(t *Term) (string, bool) {
	if t == nil || t.Op != "const" || t.Val == nil || t.Val.Kind() != constant.String {
		return "", false
	}
	return constant.StringVal(t.Val), true
}

// c10BlockCommentEnd — a /* */ comment ends at the first "*/" behind its opening (C10.d). Two structural conditions on
// CommentState's block-comment loop (the loop that compares a consumed rune with '*'):
//   (1) every rune the loop consumes is itself examined for being a '*' before the next one is consumed — except the
//       last rune of a path that leaves the loop (the closing '/'): a loop that consumes "the rune after a star" and
//       moves on never sees the closer in "**/" (or in "/**/" when the opening's star is comment text);
//   (2) the two runes of the opening are consumed before the loop: otherwise the opening's '*' can pair with a
//       following '/' ("/*/" closes) or hide the real closer.
func c10BlockCommentEnd(c *Ctx, r *Report, clause string) {
	f := c.need(r, clause, "Parser", "", "CommentState")
	if f == nil {
		return
	}
	info := f.Pkg.TypesInfo
	key := f.Name + "/block-comment-ends-at-the-first-star-slash"
	isCall := func(t *Term, name string) bool {
		return t != nil && t.Op == "call" && strings.HasSuffix(t.Name, "lexer)."+name)
	}
	type found struct {
		loop  *ast.ForStmt
		paths []*PathOut
	}
	var loops []found
	ast.Inspect(f.Decl.Body, func(n ast.Node) bool {
		fs, ok := n.(*ast.ForStmt)
		if !ok {
			return true
		}
		paths, err := newPathEnum(info).Enumerate(fs.Body.List)
		if err != nil {
			return true
		}
		for _, p := range paths {
			for _, cd := range p.Conds {
				if cd.Atom.Op == "cmp" && len(cd.Atom.Args) == 2 && isCall(cd.Atom.Args[0], "next") && cd.Atom.Args[1].Val != nil {
					if v, ok := constant.Int64Val(cd.Atom.Args[1].Val); ok && v == '*' {
						loops = append(loops, found{fs, paths})
						return false
					}
				}
			}
		}
		return true
	})
	if len(loops) != 1 {
		r.Undecided(clause, "R4 DECISION-TABLE", key, c.pos(f.Decl.Pos()), fmt.Sprintf("%d loops compare a consumed rune with '*' (one confirmed by hand)", len(loops)))
		return
	}
	lp := loops[0]
	var bad []string
	for _, p := range lp.paths {
		var nexts []ast.Node
		for _, e := range p.Effects {
			if e.Kind == "call" && isCall(e.Term, "next") {
				nexts = append(nexts, e.Term.Node)
			}
		}
		examined := map[ast.Node]bool{}
		for _, cd := range p.Conds {
			if cd.Atom.Op == "cmp" && len(cd.Atom.Args) == 2 && isCall(cd.Atom.Args[0], "next") && cd.Atom.Args[1].Val != nil {
				if v, ok := constant.Int64Val(cd.Atom.Args[1].Val); ok && v == '*' && (cd.Atom.Name == "==" || cd.Atom.Name == "!=") {
					examined[cd.Atom.Args[0].Node] = true
				}
			}
		}
		leaves := p.Kind == "break" || p.Kind == "return"
		for i, n := range nexts {
			if examined[n] || (leaves && i == len(nexts)-1) {
				continue
			}
			bad = append(bad, fmt.Sprintf("on the path [%s] the rune consumed at %s is never compared with '*' although the loop goes on: if it is the star of the closing \"*/\" the comment does not end there", p.CondString(), c.pos(n.Pos())))
		}
	}
	// (2) the opening
	opening := -1
	pm := parentMap(f.Decl.Body)
	if blk, ok := pm[lp.loop].(*ast.BlockStmt); ok {
		opening = 0
		for _, st := range blk.List {
			if st == ast.Stmt(lp.loop) {
				break
			}
			// statement-level calls only: a next() inside an earlier branch (the // form) belongs to that branch
			if es, ok := st.(*ast.ExprStmt); ok {
				if call, ok := unparen(es.X).(*ast.CallExpr); ok {
					if fn := callee(info, call); fn != nil && fn.Name() == "next" {
						opening++
					}
				}
			}
		}
	}
	switch {
	case opening == 0:
		bad = append(bad, "the two runes of the opening \"/*\" are not consumed before the loop: the opening's star is read as comment text (\"/**/\" does not end at its \"*/\", \"/*/\" does)")
	case opening != 2:
		r.Undecided(clause, "R4 DECISION-TABLE", key, c.pos(lp.loop.Pos()), fmt.Sprintf("%d next() call(s) before the block-comment loop; the opening has two runes", opening))
		return
	}
	sortStrings(bad)
	r.Check(len(bad) == 0, clause, "R4 DECISION-TABLE", key, c.pos(lp.loop.Pos()),
		fmt.Sprintf("the opening's two runes are consumed first; on all %d paths of the loop every consumed rune is examined for '*' before the next is consumed (the closing '/' excepted)", len(lp.paths)),
		"a /* */ comment does not end at the first \"*/\" behind its opening, so the text after the comment is swallowed or mis-read: "+strings.Join(dedupStrings(bad), "; "))
}
