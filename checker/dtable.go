package main

// dtable.go — R4 DECISION-TABLE: enumerate the acyclic paths of a (mostly) loop-free statement list as
// conjunctions of atomic conditions over symbolic terms, with the outcome (returned terms / panic / fall
// through) and the ordered side effects met on the path. Terms can be printed canonically (for sibling
// comparison) or evaluated under a valuation of their leaves (for comparison with a spec table over a
// finite set of ordering classes). No solver is involved: classes are enumerated.

import (
	"fmt"
	"go/ast"
	"go/constant"
	"go/token"
	"go/types"
	"sort"
	"strings"
)

type Term struct {
	Op     string // leaf const field index len call cmp arith not neg composite addr unknown
	Name   string // leaf name, operator, call name, type name
	Args   []*Term
	Fields map[string]*Term
	Val    constant.Value
	Node   ast.Node
}

func (t *Term) String() string {
	if t == nil {
		return "<nil>"
	}
	switch t.Op {
	case "leaf":
		return t.Name
	case "const":
		return t.Val.ExactString()
	case "field":
		return t.Args[0].String() + "." + t.Name
	case "index":
		return t.Args[0].String() + "[" + t.Args[1].String() + "]"
	case "len":
		return "len(" + t.Args[0].String() + ")"
	case "call":
		var a []string
		for _, x := range t.Args {
			a = append(a, x.String())
		}
		return t.Name + "(" + strings.Join(a, ", ") + ")"
	case "cmp", "arith":
		return "(" + t.Args[0].String() + " " + t.Name + " " + t.Args[1].String() + ")"
	case "not":
		return "!" + t.Args[0].String()
	case "neg":
		return "-" + t.Args[0].String()
	case "addr":
		return "&" + t.Args[0].String()
	case "deref":
		return "*" + t.Args[0].String()
	case "composite":
		var ks []string
		for k := range t.Fields {
			ks = append(ks, k)
		}
		sort.Strings(ks)
		var a []string
		for _, k := range ks {
			a = append(a, k+": "+t.Fields[k].String())
		}
		return t.Name + "{" + strings.Join(a, ", ") + "}"
	case "slice":
		s := t.Args[0].String() + "["
		if t.Args[1] != nil {
			s += t.Args[1].String()
		}
		s += ":"
		if t.Args[2] != nil {
			s += t.Args[2].String()
		}
		return s + "]"
	}
	return "<" + t.Op + ":" + t.Name + ">"
}

type Cond struct {
	Atom *Term
	Pol  bool
}

func (c Cond) String() string {
	if c.Pol {
		return c.Atom.String()
	}
	return "!" + c.Atom.String()
}

type Effect struct {
	Kind string // call store loop send go defer
	Term *Term  // call term, or rhs for store
	LHS  *Term  // store target
	Node ast.Node
}

func (e Effect) String() string {
	switch e.Kind {
	case "store":
		return e.LHS.String() + " = " + e.Term.String()
	case "loop":
		return "<loop>"
	}
	return e.Kind + " " + e.Term.String()
}

type PathOut struct {
	Conds   []Cond
	Effects []Effect
	Kind    string // return panic fall break continue goto
	Label   string
	Vals    []*Term
	Node    ast.Node
	Env     map[types.Object]*Term // local environment at the end of the path
}

func (p *PathOut) CondString() string {
	var a []string
	for _, c := range p.Conds {
		a = append(a, c.String())
	}
	return strings.Join(a, " && ")
}

func (p *PathOut) String() string {
	var v []string
	for _, t := range p.Vals {
		v = append(v, t.String())
	}
	var e []string
	for _, x := range p.Effects {
		e = append(e, x.String())
	}
	s := "[" + p.CondString() + "] "
	if len(e) > 0 {
		s += "{" + strings.Join(e, "; ") + "} "
	}
	s += p.Kind
	if p.Label != "" {
		s += " " + p.Label
	}
	if len(v) > 0 {
		s += " " + strings.Join(v, ", ")
	}
	return s
}

type penv struct {
	vars map[types.Object]*Term
}

func (e *penv) clone() *penv {
	n := &penv{vars: make(map[types.Object]*Term, len(e.vars))}
	for k, v := range e.vars {
		n.vars[k] = v
	}
	return n
}

type PathEnum struct {
	info      *types.Info
	leafName  func(e ast.Expr) string // canonical name for leaves (params, globals, opaque expressions)
	rename    map[types.Object]string // object -> leaf name override
	maxPaths  int
	err       error
	inlineFns map[*types.Func]*ast.FuncDecl // optional: callee bodies for one-level summaries (unused by default)
}

func newPathEnum(info *types.Info) *PathEnum {
	return &PathEnum{info: info, rename: map[types.Object]string{}, maxPaths: 20000}
}

type pstate struct {
	env     *penv
	conds   []Cond
	effects []Effect
}

func (s *pstate) fork() *pstate {
	n := &pstate{env: s.env.clone()}
	n.conds = append([]Cond(nil), s.conds...)
	n.effects = append([]Effect(nil), s.effects...)
	return n
}

// Enumerate returns all paths through stmts starting from an empty local environment.
func (pe *PathEnum) Enumerate(stmts []ast.Stmt) ([]*PathOut, error) {
	st := &pstate{env: &penv{vars: map[types.Object]*Term{}}}
	var outs []*PathOut
	rest := pe.block(stmts, []*pstate{st}, &outs)
	for _, s := range rest {
		outs = append(outs, &PathOut{Conds: s.conds, Effects: s.effects, Kind: "fall", Env: s.env.vars})
	}
	if pe.err != nil {
		return nil, pe.err
	}
	return outs, nil
}

func (pe *PathEnum) fail(format string, a ...interface{}) {
	if pe.err == nil {
		pe.err = fmt.Errorf(format, a...)
	}
}

// block runs the statements on every live state, returns the states that fall through.
func (pe *PathEnum) block(stmts []ast.Stmt, live []*pstate, outs *[]*PathOut) []*pstate {
	for _, s := range stmts {
		if len(live) == 0 {
			break
		}
		var next []*pstate
		for _, st := range live {
			next = append(next, pe.stmt(s, st, outs)...)
		}
		live = next
		if len(live)+len(*outs) > pe.maxPaths {
			pe.fail("too many paths")
			return nil
		}
	}
	return live
}

func (pe *PathEnum) stmt(s ast.Stmt, st *pstate, outs *[]*PathOut) []*pstate {
	switch x := s.(type) {
	case *ast.BlockStmt:
		return pe.block(x.List, []*pstate{st}, outs)
	case *ast.EmptyStmt:
		return []*pstate{st}
	case *ast.LabeledStmt:
		return pe.stmt(x.Stmt, st, outs)
	case *ast.DeclStmt:
		gd, ok := x.Decl.(*ast.GenDecl)
		if !ok {
			return []*pstate{st}
		}
		for _, sp := range gd.Specs {
			vs, ok := sp.(*ast.ValueSpec)
			if !ok {
				continue
			}
			for i, name := range vs.Names {
				o := pe.info.Defs[name]
				if o == nil {
					continue
				}
				if i < len(vs.Values) {
					st.env.vars[o] = pe.expr(vs.Values[i], st)
				} else {
					st.env.vars[o] = zeroTerm(o.Type())
				}
			}
		}
		return []*pstate{st}
	case *ast.AssignStmt:
		if len(x.Lhs) != len(x.Rhs) {
			// tuple assignment from a call / comma-ok
			rhs := pe.expr(x.Rhs[0], st)
			for i, l := range x.Lhs {
				t := &Term{Op: "call", Name: fmt.Sprintf("result%d", i), Args: []*Term{rhs}, Node: x}
				pe.assign(l, t, x.Tok, st, x)
			}
			return []*pstate{st}
		}
		var vals []*Term
		for _, r := range x.Rhs {
			vals = append(vals, pe.expr(r, st))
		}
		for i, l := range x.Lhs {
			v := vals[i]
			if x.Tok != token.ASSIGN && x.Tok != token.DEFINE {
				op := strings.TrimSuffix(x.Tok.String(), "=")
				v = &Term{Op: "arith", Name: op, Args: []*Term{pe.expr(l, st), v}, Node: x}
			}
			pe.assign(l, v, x.Tok, st, x)
		}
		return []*pstate{st}
	case *ast.IncDecStmt:
		op := "+"
		if x.Tok == token.DEC {
			op = "-"
		}
		v := &Term{Op: "arith", Name: op, Args: []*Term{pe.expr(x.X, st), constTerm(constant.MakeInt64(1))}, Node: x}
		pe.assign(x.X, v, token.ASSIGN, st, x)
		return []*pstate{st}
	case *ast.ExprStmt:
		if call, ok := unparen(x.X).(*ast.CallExpr); ok {
			t := pe.expr(call, st)
			if builtinName(pe.info, call) == "panic" {
				*outs = append(*outs, &PathOut{Conds: st.conds, Effects: st.effects, Kind: "panic", Vals: t.Args, Node: x, Env: st.env.vars})
				return nil
			}
			if builtinName(pe.info, call) != "" {
				st.effects = append(st.effects, Effect{Kind: "call", Term: t, Node: x})
			}
			return []*pstate{st}
		}
		if u, ok := unparen(x.X).(*ast.UnaryExpr); ok && u.Op == token.ARROW {
			st.effects = append(st.effects, Effect{Kind: "recv", Term: pe.expr(u.X, st), Node: x})
		}
		return []*pstate{st}
	case *ast.SendStmt:
		st.effects = append(st.effects, Effect{Kind: "send", Term: pe.expr(x.Value, st), LHS: pe.expr(x.Chan, st), Node: x})
		return []*pstate{st}
	case *ast.GoStmt:
		st.effects = append(st.effects, Effect{Kind: "go", Term: pe.expr(x.Call, st), Node: x})
		return []*pstate{st}
	case *ast.DeferStmt:
		st.effects = append(st.effects, Effect{Kind: "defer", Term: pe.expr(x.Call, st), Node: x})
		return []*pstate{st}
	case *ast.ReturnStmt:
		var vals []*Term
		for _, r := range x.Results {
			vals = append(vals, pe.expr(r, st))
		}
		*outs = append(*outs, &PathOut{Conds: st.conds, Effects: st.effects, Kind: "return", Vals: vals, Node: x, Env: st.env.vars})
		return nil
	case *ast.BranchStmt:
		lbl := ""
		if x.Label != nil {
			lbl = x.Label.Name
		}
		*outs = append(*outs, &PathOut{Conds: st.conds, Effects: st.effects, Kind: strings.ToLower(x.Tok.String()), Label: lbl, Node: x, Env: st.env.vars})
		return nil
	case *ast.IfStmt:
		if x.Init != nil {
			sts := pe.stmt(x.Init, st, outs)
			if len(sts) != 1 {
				pe.fail("if-init forks")
				return nil
			}
			st = sts[0]
		}
		var res []*pstate
		for _, alt := range pe.split(x.Cond, true, st) {
			res = append(res, pe.block(x.Body.List, []*pstate{alt}, outs)...)
		}
		for _, alt := range pe.split(x.Cond, false, st) {
			if x.Else != nil {
				res = append(res, pe.stmt(x.Else, alt, outs)...)
			} else {
				res = append(res, alt)
			}
		}
		return res
	case *ast.SwitchStmt:
		if x.Init != nil {
			sts := pe.stmt(x.Init, st, outs)
			if len(sts) != 1 {
				pe.fail("switch-init forks")
				return nil
			}
			st = sts[0]
		}
		var tag *Term
		if x.Tag != nil {
			tag = pe.expr(x.Tag, st)
		}
		var res []*pstate
		// states that have not matched an earlier case
		pending := []*pstate{st}
		var defaultClause *ast.CaseClause
		for _, cc := range x.Body.List {
			clause := cc.(*ast.CaseClause)
			if clause.List == nil {
				defaultClause = clause
				continue
			}
			var matched []*pstate
			var stillPending []*pstate
			for _, p := range pending {
				cur := []*pstate{p}
				for _, ce := range clause.List {
					var nextCur []*pstate
					for _, q := range cur {
						if tag != nil {
							atom := &Term{Op: "cmp", Name: "==", Args: []*Term{tag, pe.expr(ce, q)}, Node: ce}
							m := q.fork()
							m.conds = append(m.conds, Cond{atom, true})
							matched = append(matched, m)
							n := q.fork()
							n.conds = append(n.conds, Cond{atom, false})
							nextCur = append(nextCur, n)
						} else {
							matched = append(matched, pe.split(ce, true, q)...)
							nextCur = append(nextCur, pe.split(ce, false, q)...)
						}
					}
					cur = nextCur
				}
				stillPending = append(stillPending, cur...)
			}
			pending = stillPending
			for _, m := range matched {
				res = append(res, pe.caseBody(x.Body.List, clause, m, outs)...)
			}
		}
		if defaultClause != nil {
			for _, p := range pending {
				res = append(res, pe.caseBody(x.Body.List, defaultClause, p, outs)...)
			}
		} else {
			res = append(res, pending...)
		}
		return res
	case *ast.ForStmt, *ast.RangeStmt:
		// loops are opaque: record, invalidate locals assigned inside
		st.effects = append(st.effects, Effect{Kind: "loop", Term: &Term{Op: "unknown", Name: "loop"}, Node: s})
		ast.Inspect(s, func(n ast.Node) bool {
			switch a := n.(type) {
			case *ast.AssignStmt:
				for _, l := range a.Lhs {
					if o := identObj(pe.info, l); o != nil {
						if _, tracked := st.env.vars[o]; tracked || a.Tok == token.DEFINE {
							st.env.vars[o] = &Term{Op: "unknown", Name: o.Name() + "@loop"}
						}
					}
				}
			case *ast.IncDecStmt:
				if o := identObj(pe.info, a.X); o != nil {
					st.env.vars[o] = &Term{Op: "unknown", Name: o.Name() + "@loop"}
				}
			}
			return true
		})
		return []*pstate{st}
	}
	pe.fail("unsupported statement %T", s)
	return nil
}

// caseBody runs a case clause; a `break` inside a switch case leaves the switch.
func (pe *PathEnum) caseBody(all []ast.Stmt, clause *ast.CaseClause, st *pstate, outs *[]*PathOut) []*pstate {
	var inner []*PathOut
	res := pe.block(clause.Body, []*pstate{st}, &inner)
	for _, o := range inner {
		if o.Kind == "break" && o.Label == "" {
			res = append(res, &pstate{env: (&penv{vars: o.Env}).clone(), conds: o.Conds, effects: o.Effects})
			continue
		}
		if o.Kind == "fallthrough" {
			var next *ast.CaseClause
			for i, c := range all {
				if c == ast.Stmt(clause) && i+1 < len(all) {
					next = all[i+1].(*ast.CaseClause)
				}
			}
			if next == nil {
				pe.fail("fallthrough without next clause")
				continue
			}
			res = append(res, pe.caseBody(all, next, &pstate{env: (&penv{vars: o.Env}).clone(), conds: o.Conds, effects: o.Effects}, outs)...)
			continue
		}
		*outs = append(*outs, o)
	}
	return res
}

func (pe *PathEnum) assign(l ast.Expr, v *Term, tok token.Token, st *pstate, node ast.Node) {
	l = unparen(l)
	if id, ok := l.(*ast.Ident); ok {
		if id.Name == "_" {
			return
		}
		o := objOf(pe.info, id)
		if vv, ok := o.(*types.Var); ok && vv.Pkg() != nil && vv.Parent() != vv.Pkg().Scope() && !vv.IsField() {
			st.env.vars[o] = v
			return
		}
	}
	st.effects = append(st.effects, Effect{Kind: "store", LHS: pe.expr(l, st), Term: v, Node: node})
}

// split returns the states in which cond evaluates to pol, one per short-circuit path.
func (pe *PathEnum) split(cond ast.Expr, pol bool, st *pstate) []*pstate {
	cond = unparen(cond)
	switch x := cond.(type) {
	case *ast.BinaryExpr:
		if x.Op == token.LAND || x.Op == token.LOR {
			and := x.Op == token.LAND
			if and == pol {
				// (A && B) true: A true then B true;  (A || B) false: A false then B false
				var res []*pstate
				for _, a := range pe.split(x.X, pol, st) {
					res = append(res, pe.split(x.Y, pol, a)...)
				}
				return res
			}
			// (A && B) false: A false | A true, B false ; (A || B) true: A true | A false, B true
			res := pe.split(x.X, pol, st)
			for _, a := range pe.split(x.X, !pol, st) {
				res = append(res, pe.split(x.Y, pol, a)...)
			}
			return res
		}
	case *ast.UnaryExpr:
		if x.Op == token.NOT {
			return pe.split(x.X, !pol, st)
		}
	}
	n := st.fork()
	t := pe.expr(cond, n)
	if t.Op == "const" && t.Val.Kind() == constant.Bool {
		if constant.BoolVal(t.Val) == pol {
			return []*pstate{n}
		}
		return nil
	}
	n.conds = append(n.conds, Cond{t, pol})
	return []*pstate{n}
}

func constTerm(v constant.Value) *Term { return &Term{Op: "const", Val: v} }

func zeroTerm(t types.Type) *Term {
	switch u := t.Underlying().(type) {
	case *types.Basic:
		switch {
		case u.Info()&types.IsBoolean != 0:
			return constTerm(constant.MakeBool(false))
		case u.Info()&types.IsNumeric != 0:
			return constTerm(constant.MakeInt64(0))
		case u.Info()&types.IsString != 0:
			return constTerm(constant.MakeString(""))
		}
	case *types.Pointer, *types.Slice, *types.Map, *types.Interface, *types.Signature, *types.Chan:
		return &Term{Op: "leaf", Name: "nil"}
	}
	return &Term{Op: "leaf", Name: "zero(" + types.TypeString(t, shortQual) + ")"}
}

func (pe *PathEnum) expr(e ast.Expr, st *pstate) *Term {
	e = unparen(e)
	if v := constOf(pe.info, e); v != nil {
		return &Term{Op: "const", Val: v, Node: e}
	}
	switch x := e.(type) {
	case *ast.Ident:
		o := objOf(pe.info, x)
		if o == nil {
			return &Term{Op: "leaf", Name: x.Name, Node: e}
		}
		if t, ok := st.env.vars[o]; ok {
			return t
		}
		if n, ok := pe.rename[o]; ok {
			return &Term{Op: "leaf", Name: n, Node: e}
		}
		if _, isNil := o.(*types.Nil); isNil {
			return &Term{Op: "leaf", Name: "nil", Node: e}
		}
		if v, ok := o.(*types.Var); ok && v.Pkg() != nil && v.Parent() == v.Pkg().Scope() {
			return &Term{Op: "leaf", Name: shortPkg(v.Pkg()) + "." + v.Name(), Node: e}
		}
		if f, ok := o.(*types.Func); ok {
			return &Term{Op: "leaf", Name: shortFuncName(f), Node: e}
		}
		return &Term{Op: "leaf", Name: o.Name(), Node: e}
	case *ast.SelectorExpr:
		if sel, ok := pe.info.Selections[x]; ok {
			base := pe.expr(x.X, st)
			if sel.Kind() == types.FieldVal {
				// expand promotions
				t := sel.Recv()
				idx := sel.Index()
				for i := 0; i < len(idx)-1; i++ {
					sto := structOf(t)
					if sto == nil {
						break
					}
					f := sto.Field(idx[i])
					base = fieldTerm(base, f.Name(), e)
					t = f.Type()
				}
				return fieldTerm(base, sel.Obj().Name(), e)
			}
			// method value
			return &Term{Op: "field", Name: sel.Obj().Name(), Args: []*Term{base}, Node: e}
		}
		if o := pe.info.Uses[x.Sel]; o != nil && o.Pkg() != nil {
			return &Term{Op: "leaf", Name: shortPkg(o.Pkg()) + "." + o.Name(), Node: e}
		}
		return &Term{Op: "leaf", Name: exprString(e), Node: e}
	case *ast.IndexExpr:
		return &Term{Op: "index", Args: []*Term{pe.expr(x.X, st), pe.expr(x.Index, st)}, Node: e}
	case *ast.SliceExpr:
		var lo, hi *Term
		if x.Low != nil {
			lo = pe.expr(x.Low, st)
		}
		if x.High != nil {
			hi = pe.expr(x.High, st)
		}
		return &Term{Op: "slice", Args: []*Term{pe.expr(x.X, st), lo, hi}, Node: e}
	case *ast.StarExpr:
		b := pe.expr(x.X, st)
		if b.Op == "addr" {
			return b.Args[0]
		}
		return &Term{Op: "deref", Args: []*Term{b}, Node: e}
	case *ast.UnaryExpr:
		switch x.Op {
		case token.NOT:
			return &Term{Op: "not", Args: []*Term{pe.expr(x.X, st)}, Node: e}
		case token.SUB:
			return &Term{Op: "neg", Args: []*Term{pe.expr(x.X, st)}, Node: e}
		case token.ADD:
			return pe.expr(x.X, st)
		case token.AND:
			return &Term{Op: "addr", Args: []*Term{pe.expr(x.X, st)}, Node: e}
		case token.ARROW:
			return &Term{Op: "call", Name: "<-", Args: []*Term{pe.expr(x.X, st)}, Node: e}
		}
		return &Term{Op: "call", Name: x.Op.String(), Args: []*Term{pe.expr(x.X, st)}, Node: e}
	case *ast.BinaryExpr:
		l, r := pe.expr(x.X, st), pe.expr(x.Y, st)
		switch x.Op {
		case token.EQL, token.NEQ, token.LSS, token.GTR, token.LEQ, token.GEQ:
			// one orientation per comparison: constants (and nil) last; otherwise a length last —
			// `0 == x` ≡ `x == 0`, `len(s) <= p` ≡ `p >= len(s)`
			op := x.Op
			rank := func(t *Term) int {
				switch {
				case t.Op == "const" || (t.Op == "leaf" && t.Name == "nil"):
					return 2
				case t.Op == "len":
					return 1
				}
				return 0
			}
			if rank(l) > rank(r) {
				l, r = r, l
				op = flipCmp[op]
			}
			return &Term{Op: "cmp", Name: op.String(), Args: []*Term{l, r}, Node: e}
		case token.LAND, token.LOR:
			return &Term{Op: "arith", Name: x.Op.String(), Args: []*Term{l, r}, Node: e}
		}
		return &Term{Op: "arith", Name: x.Op.String(), Args: []*Term{l, r}, Node: e}
	case *ast.CallExpr:
		if b := builtinName(pe.info, x); b == "len" && len(x.Args) == 1 {
			return &Term{Op: "len", Args: []*Term{pe.expr(x.Args[0], st)}, Node: e}
		}
		var args []*Term
		for _, a := range x.Args {
			args = append(args, pe.expr(a, st))
		}
		if tv, ok := pe.info.Types[x.Fun]; ok && tv.IsType() && len(args) == 1 {
			// conversion: transparent for integer-like values
			return args[0]
		}
		name := ""
		if b := builtinName(pe.info, x); b != "" {
			name = b
		} else if f := callee(pe.info, x); f != nil {
			name = shortFuncName(f)
			if se, ok := unparen(x.Fun).(*ast.SelectorExpr); ok {
				if _, isSel := pe.info.Selections[se]; isSel {
					args = append([]*Term{pe.expr(se.X, st)}, args...)
				}
			}
		} else {
			name = pe.expr(x.Fun, st).String()
		}
		ct := &Term{Op: "call", Name: name, Args: args, Node: e}
		if builtinName(pe.info, x) == "" {
			st.effects = append(st.effects, Effect{Kind: "call", Term: ct, Node: x})
		}
		return ct
	case *ast.CompositeLit:
		t := &Term{Op: "composite", Name: "", Fields: map[string]*Term{}, Node: e}
		if tv, ok := pe.info.Types[e]; ok {
			t.Name = types.TypeString(tv.Type, shortQual)
		}
		for i, el := range x.Elts {
			if kv, ok := el.(*ast.KeyValueExpr); ok {
				if k, ok := kv.Key.(*ast.Ident); ok {
					t.Fields[k.Name] = pe.expr(kv.Value, st)
					continue
				}
				t.Fields[exprString(kv.Key)] = pe.expr(kv.Value, st)
			} else {
				t.Fields[fmt.Sprintf("#%d", i)] = pe.expr(el, st)
			}
		}
		return t
	case *ast.FuncLit:
		return &Term{Op: "leaf", Name: "funclit", Node: e}
	case *ast.TypeAssertExpr:
		return &Term{Op: "call", Name: "assert", Args: []*Term{pe.expr(x.X, st)}, Node: e}
	case *ast.BasicLit:
		return &Term{Op: "leaf", Name: x.Value, Node: e}
	}
	return &Term{Op: "leaf", Name: exprString(e), Node: e}
}

func fieldTerm(base *Term, name string, node ast.Node) *Term {
	b := base
	if b.Op == "addr" {
		b = b.Args[0]
	}
	if b.Op == "composite" {
		if f, ok := b.Fields[name]; ok {
			return f
		}
	}
	return &Term{Op: "field", Name: name, Args: []*Term{base}, Node: node}
}

// ---------------------------------------------------------------------------------------------
// evaluation under a valuation of leaves

type Valuation func(t *Term) (constant.Value, bool)

// evalTerm evaluates t to a constant if the valuation decides all its leaves.
func evalTerm(t *Term, val Valuation) (constant.Value, bool) {
	if t == nil {
		return nil, false
	}
	if v, ok := val(t); ok {
		return v, true
	}
	switch t.Op {
	case "const":
		return t.Val, true
	case "not":
		v, ok := evalTerm(t.Args[0], val)
		if !ok || v.Kind() != constant.Bool {
			return nil, false
		}
		return constant.MakeBool(!constant.BoolVal(v)), true
	case "neg":
		v, ok := evalTerm(t.Args[0], val)
		if !ok {
			return nil, false
		}
		return constant.UnaryOp(token.SUB, v, 0), true
	case "cmp":
		a, ok1 := evalTerm(t.Args[0], val)
		b, ok2 := evalTerm(t.Args[1], val)
		if !ok1 || !ok2 {
			return nil, false
		}
		var op token.Token
		switch t.Name {
		case "==":
			op = token.EQL
		case "!=":
			op = token.NEQ
		case "<":
			op = token.LSS
		case ">":
			op = token.GTR
		case "<=":
			op = token.LEQ
		case ">=":
			op = token.GEQ
		}
		if a.Kind() != b.Kind() && !(isNum(a) && isNum(b)) {
			return nil, false
		}
		return constant.MakeBool(constant.Compare(a, op, b)), true
	case "arith":
		a, ok1 := evalTerm(t.Args[0], val)
		b, ok2 := evalTerm(t.Args[1], val)
		if !ok1 || !ok2 {
			return nil, false
		}
		switch t.Name {
		case "+":
			return constant.BinaryOp(a, token.ADD, b), true
		case "-":
			return constant.BinaryOp(a, token.SUB, b), true
		case "*":
			return constant.BinaryOp(a, token.MUL, b), true
		case "&&":
			return constant.MakeBool(constant.BoolVal(a) && constant.BoolVal(b)), true
		case "||":
			return constant.MakeBool(constant.BoolVal(a) || constant.BoolVal(b)), true
		}
	}
	return nil, false
}

func isNum(v constant.Value) bool { return v.Kind() == constant.Int || v.Kind() == constant.Float }

// selectPath returns the paths all of whose conditions evaluate consistently under val; undecidable
// conditions make the result ambiguous (ok=false).
func selectPath(paths []*PathOut, val Valuation) (*PathOut, error) {
	var hit []*PathOut
	for _, p := range paths {
		sat := true
		for _, c := range p.Conds {
			v, ok := evalTerm(c.Atom, val)
			if !ok || v.Kind() != constant.Bool {
				return nil, fmt.Errorf("condition %s is not decided by the class", c.Atom)
			}
			if constant.BoolVal(v) != c.Pol {
				sat = false
				break
			}
		}
		if sat {
			hit = append(hit, p)
		}
	}
	if len(hit) != 1 {
		return nil, fmt.Errorf("%d paths match the class (expected exactly 1)", len(hit))
	}
	return hit[0], nil
}

// selectPaths returns every path consistent with val; conditions the valuation does not decide are free.
func selectPaths(paths []*PathOut, val Valuation) []*PathOut {
	var hit []*PathOut
	for _, p := range paths {
		sat := true
		for _, c := range p.Conds {
			v, ok := evalTerm(c.Atom, val)
			if !ok || v.Kind() != constant.Bool {
				continue
			}
			if constant.BoolVal(v) != c.Pol {
				sat = false
				break
			}
		}
		if sat {
			hit = append(hit, p)
		}
	}
	return hit
}

// leaves collects the distinct leaf-ish subterms (leaf, field chains, index, len, call) of the conditions.
func condAtoms(paths []*PathOut) []string {
	seen := map[string]bool{}
	for _, p := range paths {
		for _, c := range p.Conds {
			seen[c.Atom.String()] = true
		}
	}
	return sortedKeys(seen)
}
