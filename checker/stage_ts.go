package main

// stage_ts.go — the TypeScript backend as a staged program (string shapes + a small tokenizer).

type TSStaged struct {
	Eval *ShapeEval
	Errs []string
}

func buildTSStaged(c *Ctx) *TSStaged {
	entry := c.Func("Builder", "", "TsGenFromString")
	ts := &TSStaged{}
	if entry == nil {
		ts.Errs = append(ts.Errs, "Builder.TsGenFromString not found")
		return ts
	}
	ts.Eval = newShapeEval(c, map[string]bool{})
	ts.Eval.EvalEntry(entry)
	ts.Errs = append(ts.Errs, ts.Eval.errs...)
	return ts
}

func c05Staged(c *Ctx, r *Report) {}
