package main

// stage_ts.go — the TypeScript backend as a staged program. No TypeScript front end is installed, so the
// rendered text is handled by a small tokenizer and a statement parser for the subset the generator emits
// (functions, classes, if/else, while, switch/case, let/var/const, assignments, calls, return, break).
// Rules on it are token-level: weaker than the Go-side rules, and said so wherever they are used.

import (
	"fmt"
	"go/types"
	"strings"
)

type TSStaged struct {
	Eval  *ShapeEval
	Errs  []string
	Src   string // rendered file (k = 2)
	Toks  []tsTok
	LexEr string
	Funcs map[string]*tsFunc
	Order []string // names of written fields, in order
}

type tsTok struct {
	kind string // ident num str punct
	text string
	pos  int
	nl   bool // a newline precedes this token
}

type tsFunc struct {
	Name   string
	Params []tsTok
	Body   []*tsStmt
	Toks   []tsTok // body tokens
	ParseE string
}

type tsStmt struct {
	Kind  string // if while block let assign return break expr switch case continue
	Cond  []tsTok
	Then  []*tsStmt
	Else  []*tsStmt
	Name  string
	Op    string
	Expr  []tsTok
	Cases []*tsStmt // for switch: Kind case, Cond = label tokens, Then = body
}

func buildTSStaged(c *Ctx) *TSStaged {
	entry := c.Func("Builder", "", "TsGenFromString")
	ts := &TSStaged{Funcs: map[string]*tsFunc{}}
	if entry == nil {
		ts.Errs = append(ts.Errs, "Builder.TsGenFromString not found")
		return ts
	}
	ts.Eval = newShapeEval(c, map[string]bool{})
	ts.Eval.EvalEntry(entry)
	ts.Errs = append(ts.Errs, ts.Eval.errs...)
	// render in write order
	r := &renderer{c: c, k: 2}
	r.ts = true
	var b strings.Builder
	for _, fv := range ts.Eval.writes {
		ts.Order = append(ts.Order, fv.Name())
		if sh, ok := ts.Eval.fields[fv]; ok {
			b.WriteString(r.render(sh))
		}
	}
	for _, e := range r.errs {
		ts.Errs = append(ts.Errs, "render: "+e)
	}
	ts.Src = b.String()
	var err error
	ts.Toks, err = tsLex(ts.Src)
	if err != nil {
		ts.LexEr = err.Error()
		return ts
	}
	ts.findFuncs()
	return ts
}

func tsLex(src string) ([]tsTok, error) {
	var toks []tsTok
	i := 0
	nl := false
	n := len(src)
	isIdStart := func(b byte) bool {
		return b == '_' || b == '$' || (b >= 'a' && b <= 'z') || (b >= 'A' && b <= 'Z')
	}
	isDigit := func(b byte) bool { return b >= '0' && b <= '9' }
	for i < n {
		ch := src[i]
		switch {
		case ch == '\n':
			nl = true
			i++
		case ch == ' ' || ch == '\t' || ch == '\r':
			i++
		case ch == '/' && i+1 < n && src[i+1] == '/':
			for i < n && src[i] != '\n' {
				i++
			}
		case ch == '/' && i+1 < n && src[i+1] == '*':
			j := strings.Index(src[i+2:], "*/")
			if j < 0 {
				return toks, fmt.Errorf("unterminated /* comment at offset %d", i)
			}
			if strings.Contains(src[i:i+2+j], "\n") {
				nl = true
			}
			i += 2 + j + 2
		case ch == '"' || ch == '\'' || ch == '`':
			j := i + 1
			for j < n && src[j] != ch {
				if src[j] == '\\' {
					j++
				}
				if src[j] == '\n' && ch != '`' {
					return toks, fmt.Errorf("unterminated string at offset %d", i)
				}
				j++
			}
			if j >= n {
				return toks, fmt.Errorf("unterminated string at offset %d", i)
			}
			toks = append(toks, tsTok{"str", src[i : j+1], i, nl})
			nl = false
			i = j + 1
		case isIdStart(ch):
			j := i
			for j < n && (isIdStart(src[j]) || isDigit(src[j])) {
				j++
			}
			toks = append(toks, tsTok{"ident", src[i:j], i, nl})
			nl = false
			i = j
		case isDigit(ch):
			j := i
			for j < n && (isDigit(src[j]) || src[j] == '.') {
				j++
			}
			toks = append(toks, tsTok{"num", src[i:j], i, nl})
			nl = false
			i = j
		default:
			three := ""
			if i+3 <= n {
				three = src[i : i+3]
			}
			two := ""
			if i+2 <= n {
				two = src[i : i+2]
			}
			switch {
			case three == "===" || three == "!==":
				toks = append(toks, tsTok{"punct", three, i, nl})
				i += 3
			case two == "==" || two == "!=" || two == ">=" || two == "<=" || two == "&&" || two == "||" || two == "++" || two == "--" || two == "+=" || two == "-=" || two == "=>":
				toks = append(toks, tsTok{"punct", two, i, nl})
				i += 2
			default:
				toks = append(toks, tsTok{"punct", string(ch), i, nl})
				i++
			}
			nl = false
		}
	}
	return toks, nil
}

// tsBalance checks bracket nesting over the token stream.
func tsBalance(toks []tsTok) string {
	var stack []tsTok
	pair := map[string]string{")": "(", "]": "[", "}": "{"}
	for _, t := range toks {
		if t.kind != "punct" {
			continue
		}
		switch t.text {
		case "(", "[", "{":
			stack = append(stack, t)
		case ")", "]", "}":
			if len(stack) == 0 || stack[len(stack)-1].text != pair[t.text] {
				return fmt.Sprintf("unbalanced %q at offset %d", t.text, t.pos)
			}
			stack = stack[:len(stack)-1]
		}
	}
	if len(stack) > 0 {
		return fmt.Sprintf("unclosed %q at offset %d", stack[len(stack)-1].text, stack[len(stack)-1].pos)
	}
	return ""
}

// matchClose returns the index of the bracket closing toks[i].
func matchClose(toks []tsTok, i int) int {
	open := toks[i].text
	closeT := map[string]string{"(": ")", "[": "]", "{": "}"}[open]
	depth := 0
	for j := i; j < len(toks); j++ {
		if toks[j].kind != "punct" {
			continue
		}
		if toks[j].text == open {
			depth++
		} else if toks[j].text == closeT {
			depth--
			if depth == 0 {
				return j
			}
		}
	}
	return -1
}

func (ts *TSStaged) findFuncs() {
	toks := ts.Toks
	for i := 0; i+2 < len(toks); i++ {
		if toks[i].kind == "ident" && toks[i].text == "function" && toks[i+1].kind == "ident" && toks[i+2].text == "(" {
			pc := matchClose(toks, i+2)
			if pc < 0 {
				continue
			}
			// skip return type up to the body's opening brace
			j := pc + 1
			for j < len(toks) && toks[j].text != "{" {
				j++
			}
			if j >= len(toks) {
				continue
			}
			bc := matchClose(toks, j)
			if bc < 0 {
				continue
			}
			f := &tsFunc{Name: toks[i+1].text, Params: toks[i+3 : pc], Toks: toks[j+1 : bc]}
			p := &tsParser{toks: f.Toks}
			f.Body = p.stmts()
			if p.err != "" {
				f.ParseE = p.err
			}
			ts.Funcs[f.Name] = f
			i = j // nested functions are not used by the generator
		}
	}
}

type tsParser struct {
	toks []tsTok
	i    int
	err  string
}

func (p *tsParser) peek() *tsTok {
	if p.i < len(p.toks) {
		return &p.toks[p.i]
	}
	return nil
}

func (p *tsParser) stmts() []*tsStmt {
	var out []*tsStmt
	for p.i < len(p.toks) && p.err == "" {
		if p.toks[p.i].text == ";" {
			p.i++
			continue
		}
		s := p.stmt()
		if s != nil {
			out = append(out, s)
		}
	}
	return out
}

func (p *tsParser) parenGroup() []tsTok {
	if p.i >= len(p.toks) || p.toks[p.i].text != "(" {
		p.err = "expected ("
		return nil
	}
	c := matchClose(p.toks, p.i)
	if c < 0 {
		p.err = "unbalanced ("
		return nil
	}
	g := p.toks[p.i+1 : c]
	p.i = c + 1
	return g
}

func (p *tsParser) blockOrStmt() []*tsStmt {
	if p.i < len(p.toks) && p.toks[p.i].text == "{" {
		c := matchClose(p.toks, p.i)
		if c < 0 {
			p.err = "unbalanced {"
			return nil
		}
		sub := &tsParser{toks: p.toks[p.i+1 : c]}
		body := sub.stmts()
		if sub.err != "" {
			p.err = sub.err
		}
		p.i = c + 1
		return body
	}
	s := p.stmt()
	if s == nil {
		return nil
	}
	return []*tsStmt{s}
}

// exprEnd: index where the expression statement starting at p.i ends.
func (p *tsParser) exprTokens() []tsTok {
	start := p.i
	depth := 0
	for p.i < len(p.toks) {
		t := p.toks[p.i]
		if depth == 0 && p.i > start && t.nl {
			break
		}
		if t.kind == "punct" {
			switch t.text {
			case "(", "[", "{":
				depth++
			case ")", "]", "}":
				if depth == 0 {
					return p.toks[start:p.i]
				}
				depth--
			case ";":
				if depth == 0 {
					e := p.toks[start:p.i]
					p.i++
					return e
				}
			}
		}
		p.i++
	}
	return p.toks[start:p.i]
}

func (p *tsParser) stmt() *tsStmt {
	t := p.toks[p.i]
	if t.kind == "ident" {
		switch t.text {
		case "if":
			p.i++
			s := &tsStmt{Kind: "if", Cond: p.parenGroup()}
			s.Then = p.blockOrStmt()
			if p.i < len(p.toks) && p.toks[p.i].kind == "ident" && p.toks[p.i].text == "else" {
				p.i++
				s.Else = p.blockOrStmt()
			}
			return s
		case "while":
			p.i++
			s := &tsStmt{Kind: "while", Cond: p.parenGroup()}
			s.Then = p.blockOrStmt()
			return s
		case "switch":
			p.i++
			s := &tsStmt{Kind: "switch", Cond: p.parenGroup()}
			if p.i >= len(p.toks) || p.toks[p.i].text != "{" {
				p.err = "switch without body"
				return s
			}
			c := matchClose(p.toks, p.i)
			if c < 0 {
				p.err = "unbalanced switch body"
				return s
			}
			inner := p.toks[p.i+1 : c]
			p.i = c + 1
			// split on top-level `case` / `default`
			depth := 0
			var cur *tsStmt
			startBody := 0
			flush := func(end int) {
				if cur != nil {
					sub := &tsParser{toks: inner[startBody:end]}
					cur.Then = sub.stmts()
					if sub.err != "" {
						p.err = sub.err
					}
					s.Cases = append(s.Cases, cur)
				}
			}
			for k := 0; k < len(inner); k++ {
				tk := inner[k]
				if tk.kind == "punct" {
					switch tk.text {
					case "(", "[", "{":
						depth++
					case ")", "]", "}":
						depth--
					}
				}
				if depth == 0 && tk.kind == "ident" && (tk.text == "case" || tk.text == "default") {
					flush(k)
					cur = &tsStmt{Kind: "case"}
					m := k + 1
					for m < len(inner) && inner[m].text != ":" {
						m++
					}
					cur.Cond = inner[k+1 : m]
					startBody = m + 1
					k = m
				}
			}
			flush(len(inner))
			return s
		case "let", "var", "const":
			p.i++
			if p.i >= len(p.toks) {
				p.err = "declaration without name"
				return nil
			}
			s := &tsStmt{Kind: "let", Name: p.toks[p.i].text}
			p.i++
			rest := p.exprTokens()
			// drop type annotation up to the top-level '='
			depth := 0
			for k, tk := range rest {
				if tk.kind == "punct" {
					switch tk.text {
					case "(", "[", "{":
						depth++
					case ")", "]", "}":
						depth--
					case "=":
						if depth == 0 {
							s.Expr = rest[k+1:]
							return s
						}
					}
				}
			}
			return s
		case "return":
			p.i++
			s := &tsStmt{Kind: "return"}
			if p.i < len(p.toks) && !p.toks[p.i].nl && p.toks[p.i].text != "}" {
				s.Expr = p.exprTokens()
			}
			return s
		case "break":
			p.i++
			return &tsStmt{Kind: "break"}
		case "continue":
			p.i++
			return &tsStmt{Kind: "continue"}
		}
	}
	if t.text == "{" {
		return &tsStmt{Kind: "block", Then: p.blockOrStmt()}
	}
	e := p.exprTokens()
	if len(e) == 0 {
		p.err = fmt.Sprintf("cannot parse statement at token %q", t.text)
		p.i++
		return nil
	}
	// assignment?
	depth := 0
	for k, tk := range e {
		if tk.kind == "punct" {
			switch tk.text {
			case "(", "[", "{":
				depth++
			case ")", "]", "}":
				depth--
			case "=", "+=", "-=":
				if depth == 0 {
					return &tsStmt{Kind: "assign", Name: tsJoin(e[:k]), Op: tk.text, Expr: e[k+1:]}
				}
			case "++", "--":
				if depth == 0 && k == len(e)-1 {
					return &tsStmt{Kind: "assign", Name: tsJoin(e[:k]), Op: tk.text}
				}
			}
		}
	}
	return &tsStmt{Kind: "expr", Expr: e}
}

func tsJoin(toks []tsTok) string {
	var b strings.Builder
	for i, t := range toks {
		if i > 0 && (t.kind == "ident" || t.kind == "num") && (toks[i-1].kind == "ident" || toks[i-1].kind == "num") {
			b.WriteByte(' ')
		}
		b.WriteString(t.text)
	}
	return b.String()
}

// tsCalls lists the called names in an expression, in source order ("new X" is reported as "new X").
func tsCalls(toks []tsTok) []string {
	var out []string
	for i := 0; i < len(toks); i++ {
		if toks[i].text != "(" || i == 0 {
			continue
		}
		j := i - 1
		if toks[j].kind != "ident" {
			continue
		}
		name := toks[j].text
		switch name {
		case "if", "while", "switch", "for", "function", "return", "catch", "constructor", "typeof":
			continue
		}
		for j-2 >= 0 && toks[j-1].text == "." && toks[j-2].kind == "ident" {
			name = toks[j-2].text + "." + name
			j -= 2
		}
		if j-1 >= 0 && toks[j-1].kind == "ident" && toks[j-1].text == "new" {
			name = "new " + name
		}
		out = append(out, name)
	}
	return out
}

// ---------------------------------------------------------------------------------------------
// path enumeration over the TS statement tree (loop bodies are enumerated once, like the Go side)

type tsCond struct {
	Text string
	Pol  bool
}

type tsPath struct {
	Conds   []tsCond
	Effects []string // "call f", "set x = e", "let x = e"
	Kind    string   // fall return break continue
	Val     string
}

func (p *tsPath) clone() *tsPath {
	return &tsPath{Conds: append([]tsCond(nil), p.Conds...), Effects: append([]string(nil), p.Effects...), Kind: p.Kind, Val: p.Val}
}

func (p *tsPath) String() string {
	var cs []string
	for _, c := range p.Conds {
		if c.Pol {
			cs = append(cs, c.Text)
		} else {
			cs = append(cs, "!("+c.Text+")")
		}
	}
	return "[" + strings.Join(cs, " && ") + "] {" + strings.Join(p.Effects, "; ") + "} " + p.Kind + " " + p.Val
}

func tsEnumerate(stmts []*tsStmt) []*tsPath {
	live := []*tsPath{{Kind: "fall"}}
	var done []*tsPath
	for _, s := range stmts {
		var next []*tsPath
		for _, p := range live {
			res := tsStep(s, p)
			for _, q := range res {
				if q.Kind == "fall" {
					next = append(next, q)
				} else {
					done = append(done, q)
				}
			}
		}
		live = next
	}
	return append(done, live...)
}

func addCalls(p *tsPath, toks []tsTok) {
	for _, c := range tsCalls(toks) {
		p.Effects = append(p.Effects, "call "+c)
	}
}

func tsStep(s *tsStmt, p *tsPath) []*tsPath {
	switch s.Kind {
	case "if":
		t := p.clone()
		addCalls(t, s.Cond)
		e := t.clone()
		t.Conds = append(t.Conds, tsCond{tsJoin(s.Cond), true})
		e.Conds = append(e.Conds, tsCond{tsJoin(s.Cond), false})
		var out []*tsPath
		out = append(out, tsRun(s.Then, t)...)
		if s.Else != nil {
			out = append(out, tsRun(s.Else, e)...)
		} else {
			out = append(out, e)
		}
		return out
	case "block":
		return tsRun(s.Then, p.clone())
	case "while":
		q := p.clone()
		q.Effects = append(q.Effects, "<loop>")
		return []*tsPath{q}
	case "switch":
		q := p.clone()
		q.Effects = append(q.Effects, "<switch "+tsJoin(s.Cond)+">")
		return []*tsPath{q}
	case "let":
		q := p.clone()
		addCalls(q, s.Expr)
		q.Effects = append(q.Effects, "let "+s.Name+" = "+tsJoin(s.Expr))
		return []*tsPath{q}
	case "assign":
		q := p.clone()
		addCalls(q, s.Expr)
		q.Effects = append(q.Effects, "set "+s.Name+" "+s.Op+" "+tsJoin(s.Expr))
		return []*tsPath{q}
	case "expr":
		q := p.clone()
		addCalls(q, s.Expr)
		return []*tsPath{q}
	case "return":
		q := p.clone()
		addCalls(q, s.Expr)
		q.Kind = "return"
		q.Val = tsJoin(s.Expr)
		return []*tsPath{q}
	case "break", "continue":
		q := p.clone()
		q.Kind = s.Kind
		return []*tsPath{q}
	}
	return []*tsPath{p.clone()}
}

func tsRun(stmts []*tsStmt, p *tsPath) []*tsPath {
	live := []*tsPath{p}
	var done []*tsPath
	for _, s := range stmts {
		var next []*tsPath
		for _, q := range live {
			for _, r := range tsStep(s, q) {
				if r.Kind == "fall" {
					next = append(next, r)
				} else {
					done = append(done, r)
				}
			}
		}
		live = next
	}
	return append(done, live...)
}

// tsDriver returns the statements of the while loop of function Parser and the statements after it.
func (ts *TSStaged) tsDriver() (loop *tsStmt, before, after []*tsStmt, err string) {
	f := ts.Funcs["Parser"]
	if f == nil {
		return nil, nil, nil, "the TypeScript output has no `function Parser`"
	}
	if f.ParseE != "" {
		return nil, nil, nil, "cannot parse function Parser: " + f.ParseE
	}
	for i, s := range f.Body {
		if s.Kind == "while" {
			return s, f.Body[:i], f.Body[i+1:], ""
		}
	}
	return nil, nil, nil, "function Parser has no while loop"
}

var _ = types.Typ

// tsCanon prints a statement list in a canonical one-line form (whitespace-free tokens), used by rules that state
// what a small TypeScript function must be.
func tsCanon(ss []*tsStmt) string {
	var b strings.Builder
	for _, s := range ss {
		switch s.Kind {
		case "if":
			b.WriteString("if(" + tsJoin(s.Cond) + "){" + tsCanon(s.Then) + "}")
			if len(s.Else) > 0 {
				b.WriteString("else{" + tsCanon(s.Else) + "}")
			}
		case "while":
			b.WriteString("while(" + tsJoin(s.Cond) + "){" + tsCanon(s.Then) + "}")
		case "block":
			b.WriteString("{" + tsCanon(s.Then) + "}")
		case "let":
			b.WriteString("let " + s.Name + "=" + tsJoin(s.Expr) + ";")
		case "assign":
			b.WriteString(s.Name + s.Op + tsJoin(s.Expr) + ";")
		case "return":
			b.WriteString("return " + tsJoin(s.Expr) + ";")
		case "switch":
			b.WriteString("switch(" + tsJoin(s.Cond) + "){")
			for _, cs := range s.Cases {
				b.WriteString("case " + tsJoin(cs.Cond) + ":" + tsCanon(cs.Then))
			}
			b.WriteString("}")
		default:
			b.WriteString(s.Kind + " " + tsJoin(s.Expr) + ";")
		}
	}
	return b.String()
}
