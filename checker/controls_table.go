package main

// controls_table.go — the live-rule controls: edits of /repo's current sources that must (breaking) or must
// not (benign) make a rule fire. Each edit replaces the first occurrence of Old in File (all occurrences when
// All is set). When a construct is rewritten in /repo the control becomes "unavailable"; that is reported, not
// failed.

var controls = []control{
	// ---- C01
	{"C01", "reduce index not negated", "LALR/Table.go", "ActionIndex: -int(tr.sym_or_rule & Mask),", "ActionIndex: int(tr.sym_or_rule & Mask),", "REDUCE-index-is-negated-rule"},
	{"C01", "case pushes lhs.Value instead of lhs.ID", "Builder/GoTemplBuilder.go", "dollarDolar.YySymIndex = %d\\n\", productionRule.LeftPart.ID)", "dollarDolar.YySymIndex = %d\\n\", productionRule.LeftPart.Value)", "pushed-symbol"},
	{"C01", "driver reduces by rule a instead of -a", "Builder/GoCodeTemplate.go", "reduceIndex := -a", "reduceIndex := a", "decodes-cells-as-written"},
	{"C01", "counter advanced before the skip", "Parser/Vistor.go", "\t\t\tif id.Value == -1 {\n\t\t\t\tcontinue\n\t\t\t}\n\t\t\tindex++", "\t\t\tindex++\n\t\t\tif id.Value == -1 {\n\t\t\t\tcontinue\n\t\t\t}", "symbol-numbering"},
	{"C01", "TS reads user rule i instead of i-1", "Builder/TsGenCode.go", "oneRule := vnode.GetRules(index - 1)", "oneRule := vnode.GetRules(index)", "GetRules-offset"},
	{"C01", "goto looked up on the old top", "Builder/GoCodeTemplate.go", "\t\t\t\ts := &StateSymStack[StackPointer-1]\n\t\t\t\tgotoState := s.Action(SymTy.YySymIndex)", "\t\t\t\tgotoState := s.Action(SymTy.YySymIndex)", "goto-from-exposed-state"},
	{"C01", "pop count len-1 in TS", "Builder/TsGenCode.go", "PopStateSym(%d);\\n\\tbreak;\\n}\\n\", rightPartlen)", "PopStateSym(%d);\\n\\tbreak;\\n}\\n\", rightPartlen-1)", "pop-count"},
	{"C01", "benign: hoist the rule into a local (object builder unchanged)", "Builder/GoTemplBuilder.go", "rightPartlen := len(productionRule.RighPart)", "rhs := productionRule.RighPart\n\t\trightPartlen := len(rhs)", ""},

	// ---- C02
	{"C02", "first lookahead symbol dropped", "LALR/Table.go", "for _, sy := range lalr.LookAheadSet[tr.Index] {\n\t\t\t\tr := lalr.G.ProductoinRules", "for _, sy := range lalr.LookAheadSet[tr.Index][1:] {\n\t\t\t\tr := lalr.G.ProductoinRules", "reduce-for-every-lookahead"},
	{"C02", "action defaults emitted from goto defaults", "Builder/GoTemplBuilder.go", "range b.vnode.ActionDef {", "range b.vnode.GoToDef {", "StackPackActDef"},
	{"C02", "dense rows emitted without first column", "Builder/GoTemplBuilder.go", "\t\t\tfor _, val := range row {\n\t\t\t\ts += fmt.Sprintf(\"%d,\\t\", val)", "\t\t\tfor _, val := range row[1:] {\n\t\t\t\ts += fmt.Sprintf(\"%d,\\t\", val)", "every-row-every-value"},
	{"C02", "rule 0 gets no lookahead set", "LALR/LALR.go", "\t\t\tlalr.LookAheadSet[tr.Index] = []int{1}\n", "\t\t\t_ = tr\n", "every-reduce-transition-gets-a-set"},
	{"C02", "benign: rename the loop variable of the lookahead loop", "LALR/Table.go", "for _, sy := range lalr.LookAheadSet[tr.Index] {\n\t\t\t\tr := lalr.G.ProductoinRules[int(tr.sym_or_rule&Mask)]", "for _, sy := range lalr.LookAheadSet[tr.Index] {\n\t\t\t\tr := lalr.G.ProductoinRules[int(tr.sym_or_rule&Mask)]\n\t\t\t\t_ = sy", ""},

	// ---- C03
	{"C03", "lookback without the path condition", "LALR/LALR.go", "if SyIndex == leftPart.ID &&\n\t\t\t\tlalr.walk(lalr.trans[tr_2].q, lalr.G.ProductoinRules[ruleIndex].RighPart) == tr.q {", "if SyIndex == leftPart.ID {", "lookback-guard"},
	{"C03", "nullable test includes the matched symbol", "LALR/LALR.go", "lalr.seqenceCanEpsilon(r.RighPart[Dot+1:])", "lalr.seqenceCanEpsilon(r.RighPart[Dot:])", "nullable-suffix"},
	{"C03", "min returns the larger", "LALR/Digraph.go", "\tif x < y {\n\t\treturn x\n\t} else {\n\t\treturn y\n\t}", "\tif x < y {\n\t\treturn y\n\t} else {\n\t\treturn x\n\t}", "LALR.min"},
	{"C03", "union with successor dropped", "LALR/Digraph.go", "(*F)[x] = Union((*F)[y], (*F)[x])", "(*F)[x] = Union((*F)[x], (*F)[x])", "edge-loop"},
	{"C03", "SCC members keep their own sets", "LALR/Digraph.go", "\t\t\t(*F)[top] = (*F)[x]\n", "", "scc-pop"},
	{"C03", "nullable accumulator overwritten", "Grammar/grammar.go", "every_isEpsilon = every_isEpsilon && every_sy.IsNonTerminator && every_sy.IsEpsilonClosure", "every_isEpsilon = every_sy.IsNonTerminator && every_sy.IsEpsilonClosure", "CalculateEpsilonClosure"},
	{"C03", "warning on resolved conflicts", "LALR/Table.go", "if act, err = lalr.ResolveConflict(res[0], res[1]); err != nil {", "if act, err = lalr.ResolveConflict(res[0], res[1]); err == nil {", "warning-iff-unresolved"},
	{"C03", "reads restricted to nonterminals only (nullable dropped)", "LALR/Utils.go", "return sy.IsNonTerminator && sy.IsEpsilonClosure", "return sy.IsNonTerminator", "isNonAndEpsilonSymIndex"},
	{"C03", "index filled before the sort", "LALR/LALR.go", "\t//sort\n\tsort.SliceStable(lalr.trans, func(i, j int) bool {\n\t\treturn lalr.trans[i].q < lalr.trans[j].q\n\t})\n\t//fill index\n\tfor index := range lalr.trans {\n\t\tlalr.trans[index].Index = index\n\t}", "\t//fill index\n\tfor index := range lalr.trans {\n\t\tlalr.trans[index].Index = index\n\t}\n\t//sort\n\tsort.SliceStable(lalr.trans, func(i, j int) bool {\n\t\treturn lalr.trans[i].q < lalr.trans[j].q\n\t})", "transition-0-is-(0,S)"},
	{"C03", "benign: hoist the right-hand side in CalcLookbacks", "LALR/LALR.go", "\t\tleftPart := lalr.G.ProductoinRules[ruleIndex].LeftPart\n", "\t\tleftPart := lalr.G.ProductoinRules[ruleIndex].LeftPart\n\t\trhsLen := len(lalr.G.ProductoinRules[ruleIndex].RighPart)\n\t\t_ = rhsLen\n", ""},

	// ---- C04
	{"C04", "precedence comparison flipped", "LALR/Table.go", "if act_first.Prec > act_second.Prec {", "if act_first.Prec < act_second.Prec {", "shift-reduce-classes"},
	{"C04", "LEFT shifts", "LALR/Table.go", "\t\tif act_first.PrecType == symbol.LEFT {\n\t\t\treturn act_first, nil", "\t\tif act_first.PrecType == symbol.LEFT {\n\t\t\treturn act_second, nil", "shift-reduce-classes"},
	{"C04", "reduce/reduce keeps the later rule", "LALR/Table.go", "if act01.ActionIndex < act02.ActionIndex {", "if act01.ActionIndex > act02.ActionIndex {", "default-classes"},
	{"C04", "level incremented per symbol", "Parser/Vistor.go", "\t\t\tv.precIndex++\n\t\t\tfor _, predef := range predefSlice {", "\t\t\tfor _, predef := range predefSlice {\n\t\t\t\tv.precIndex++", "precedence-level"},
	{"C04", "%right mapped to non-associative", "Parser/Parser.go", "\t\tassocTy = RightAssocype", "\t\tassocTy = NonAssocType", "directive-chain/%right"},
	{"C04", "benign: hoist precedences into locals", "LALR/Table.go", "\tif act_first.Prec > act_second.Prec {", "\tp1 := act_first.Prec\n\tif p1 > act_second.Prec {", ""},

	// ---- C05
	{"C05", "trim loop indexes and re-slices", "Utils/packtable.go", "for len(ret) > 0 && ret[0] == 0 {", "for i := 0; i < len(ret) && ret[i] == 0; i++ {", "reslicing-loop"},
	{"C05", "reader takes goto default one column early", "Builder/GoCodeTemplate.go", "if a > NTERMINALS {", "if a >= NTERMINALS {", "go/global/packed/(*StateSym).Action"},
	{"C05", "check vector not trimmed", "Utils/packtable.go", "\t\tcheck = check[1:]\n", "", "trim-moves"},
	{"C05", "blanking against another row's default", "LALR/LALR.go", "if actTab[i][j] == actdef[i] {", "if actTab[i][j] == actdef[0] {", "blank-equals-own-default"},
	{"C05", "scan does not restart after a bump", "Utils/packtable.go", "\t\t\t\trow[i]++\n\t\t\t\tgoto checkoverlap\n", "\t\t\t\trow[i]++\n\t\t\t\tcontinue checkoverlap\n", "overlap-scan-restarts"},
	{"C05", "debug reader and UnPackTable disagree on the upper bound", "Utils/packtable.go", "D[i]+j >= len(C)", "D[i]+j > len(C)", "UnPackTable"},
	{"C05", "benign: rename payload slice in PackTable", "Utils/packtable.go", "ret", "payload", ""},

	// ---- C06
	{"C06", "TS error code literal again", "Builder/TsGenCode.go", "const ERROR_ACTION = %d\\nconst ACCEPT_ACTION = %d\\n\", b.vnode.GenErrorCode(), b.vnode.GenAcceptCode())", "const ERROR_ACTION = 0 \\nconst ACCEPT_ACTION = %d\\n\", b.vnode.GenAcceptCode())", "TsBuilder).buildConstPart/const ERROR_ACTION"},
	{"C06", "object template panics with another text", "Builder/GoObjectTemplate.go", "\"Grammar error near pos %d\"", "\"Syntax error near pos %d\"", "go/object/packed/Parser/error-class"},
	{"C06", "upper bounds guard dropped in packed reader", "Builder/GoCodeTemplate.go", "StatePackOffset[s.Yystate]+a >= len(StackPackCheck) || \n\t\t", "", "C06.d/R4 SIBLING-READERS/skeleton go/global/packed"},
	{"C06", "accept code equals error code", "LALR/Utils.go", "return len(lalr.G.LR0.LR0Closure) + 200", "return len(lalr.G.LR0.LR0Closure) + 100", "GenErrorCode≠GenAcceptCode"},
	{"C06", "TS shifts before testing the error code", "Builder/TsGenCode.go", "\t\tif (action == ERROR_ACTION) {", "\t\tif (action > 0 && action != ACCEPT_ACTION) { PushStateSym(new StateSym(action, lookAhead)) }\n\t\tif (action == ERROR_ACTION) {", "typescript/Parser"},
	{"C06", "benign: comment in the template", "Builder/GoCodeTemplate.go", "\t\ta := s.Action(lookAhead)\n", "\t\t// look the action up\n\t\ta := s.Action(lookAhead)\n", ""},

	// ---- C07
	{"C07", "tag taken from the next symbol", "Builder/GoTemplBuilder.go", "pr.RighPart[i-1].Tag)", "pr.RighPart[i].Tag)", "slot-equation"},
	{"C07", "pop before the action", "Builder/GoTemplBuilder.go", "\t\tcaseCode += actionCodeReplace(b.vnode, i, productionRule)\n\t\tcaseCode += fmt.Sprintf(\"\\t\"+pre+\"PopStateSym(%d)\\n\", rightPartlen)", "\t\tcaseCode += fmt.Sprintf(\"\\t\"+pre+\"PopStateSym(%d)\\n\", rightPartlen)\n\t\tcaseCode += actionCodeReplace(b.vnode, i, productionRule)", "action-before-pop"},
	{"C07", "window one slot too high", "Builder/GoTemplBuilder.go", "\"[topIndex-%d : \"", "\"[topIndex-%d+1 : \"", "slot-equation"},
	{"C07", "fetch before push in the object template", "Builder/GoObjectTemplate.go", "\t\t\t\tc.PushStateSym(&StateSym{\n\t\t\t\t\tYystate:    a,\n\t\t\t\t\tYySymIndex: lookAhead,\n\t\t\t\t\tValType:    val,\n\t\t\t\t})\n\t\t\t\tlookAhead = fetchLookAhead(input, &val, &currentPos)", "\t\t\t\tprev := lookAhead\n\t\t\t\tlookAhead = fetchLookAhead(input, &val, &currentPos)\n\t\t\t\tc.PushStateSym(&StateSym{\n\t\t\t\t\tYystate:    a,\n\t\t\t\t\tYySymIndex: prev,\n\t\t\t\t\tValType:    val,\n\t\t\t\t})", "values-travel-with-symbols"},
	{"C07", "$$ takes the tag of the first rhs symbol", "Builder/TsGenCode.go", "fmt.Sprintf(\"dollarDolar.ValType.%s\", pr.LeftPart.Tag))", "fmt.Sprintf(\"dollarDolar.ValType.%s\", pr.RighPart[0].Tag))", "$$-tag"},
	{"C07", "benign: name the match index", "Builder/GoTemplBuilder.go", "\t\ti, _ := strconv.Atoi(index)\n\t\treturn fmt.Sprintf(\"Dollar[%d].%s\", i, pr.RighPart[i-1].Tag)", "\t\ti, _ := strconv.Atoi(index)\n\t\tsym := pr.RighPart[i-1]\n\t\treturn fmt.Sprintf(\"Dollar[%d].%s\", i, sym.Tag)", ""},

	// ---- C08
	{"C08", "object template shifts on a >= 0", "Builder/GoObjectTemplate.go", "\t\t\tif a > 0 {", "\t\t\tif a >= 0 {", "templates/"},
	{"C08", "TS reduces by rule action instead of -action", "Builder/TsGenCode.go", "let SymTy = ReduceFunc(-action)", "let SymTy = ReduceFunc(action)", "typescript/Parser/same-as-go"},
	{"C08", "TS translate emits ID,Value swapped", "Builder/TsGenCode.go", "conv = %d;\\nbreak;\\n\", sy.Value, sy.ID)", "conv = %d;\\nbreak;\\n\", sy.ID, sy.Value)", "buildTranslate/hole-sequence"},
	{"C08", "generation toggles the object flag", "Builder/GoTemplBuilder.go", "\tb.HttpParser = utils.HttpDebug\n", "\tb.HttpParser = utils.HttpDebug\n\tutils.ObjectMode = utils.ObjectMode && !utils.HttpDebug\n", "Utils.ObjectMode"},
	{"C08", "benign: comment only in the object template", "Builder/GoObjectTemplate.go", "\t\ta := s.Action(lookAhead)\n", "\t\t// context mode\n\t\ta := s.Action(lookAhead)\n", ""},

	// ---- C09
	{"C09", "closure stops after one pass", "Grammar/grammar.go", "\t\tfor _, i := range items {\n\t\t\tchange += IC.InsertItem(i)\n\t\t}\n\t\tif change == 0 {\n\t\t\tbreak\n\t\t}", "\t\tfor _, i := range items {\n\t\t\tchange += IC.InsertItem(i)\n\t\t}\n\t\tif change >= 0 {\n\t\t\tbreak\n\t\t}", "closure-to-fixpoint"},
	{"C09", "comparator orders dots descending", "Grammar/grammar.go", "if IC.Items[i].Dot < IC.Items[j].Dot {", "if IC.Items[i].Dot > IC.Items[j].Dot {", "comparator"},
	{"C09", "state lookup ignores the last item", "LR/LR0.go", "for i := 0; i < len(ic_in.Items); i++ {", "for i := 0; i < len(ic_in.Items)-1; i++ {", "CheckIsExist"},
	{"C09", "kernel item not advanced", "Grammar/grammar.go", "\t\t\t\tnewIC.InsertItem(item.NewItem(it.RuleIndex, it.Dot+1))\n\n\t\t\t\tvar index_goto int = -1", "\t\t\t\tnewIC.InsertItem(item.NewItem(it.RuleIndex, it.Dot))\n\n\t\t\t\tvar index_goto int = -1", "goto-kernels"},
	{"C09", "existing states are inserted again", "Grammar/grammar.go", "\t\tif exist_index, exist := g.LR0.CheckIsExist(IcTemp); exist {\n\t\t\tindex_goto = exist_index\n\t\t} else {", "\t\tif exist_index, exist := g.LR0.CheckIsExist(IcTemp); exist && exist_index < 0 {\n\t\t\tindex_goto = exist_index\n\t\t} else {", "successor-registration"},
	{"C09", "benign: rename the change counter", "Grammar/grammar.go", "change", "changed", ""},

	// ---- C10
	{"C10", "rootState no longer emits the EOF token at the end of the input", "Parser/Lex.go", "\tcase r == eof:\n\t\tl.emitEOF()\n\t\treturn nil", "\tcase r == eof:\n\t\treturn nil", "rootState/character-class-to-token-class"},
	{"C10", "a minus sign no longer takes the digits that follow it", "Parser/Lex.go", "\tcase r == '-':\n\t\tl.acceptRun(\"0123456789\")\n\t\tl.emit(Number)", "\tcase r == '-':\n\t\tl.emit(Number)", "rootState/character-class-to-token-class"},
	{"C10", "EOF token without offset", "Parser/Lex.go", "\t\tKind:     EOF,\n\t\tEndAt:    l.end,\n", "\t\tKind:     EOF,\n", "emitEOF"},
	{"C10", "rules sorted by line", "Parser/Vistor.go", "\t\t\tv.rules = append(v.rules, r)\n", "\t\t\tv.rules = append(v.rules, r)\n\t\t\tsort.SliceStable(v.rules, func(i, j int) bool { return v.rules[i].LineNo < v.rules[j].LineNo })\n", "sort"},
	{"C10", "prologue gets a newline appended", "Parser/Vistor.go", "v.code = n.CodeList", "v.code = n.CodeList + \"\\n\"", "astDeclareVistor.code"},
	{"C10", "right-hand side prepended instead of appended", "Parser/Vistor.go", "r.RighPart = append(r.RighPart, id)", "r.RighPart = append([]*Idendity{id}, r.RighPart...)", "oneRule.RighPart"},
	{"C10", "benign: rename the epilogue local", "Parser/Parser.go", "restcode", "epilogue", ""},

	// ---- C11
	{"C11", "maximum starts at -1", "Parser/Vistor.go", "idMaxValue: 2,", "idMaxValue: -1,", "initial-maximum"},
	{"C11", "translate pairs ID with Value swapped", "Builder/GoTemplBuilder.go", "conv = %d\\n\", sy.Value, sy.ID)", "conv = %d\\n\", sy.ID, sy.Value)", "code-to-symbol"},
	{"C11", "literal code is the first byte again", "Parser/Parser.go", "int([]rune(p.current.Value)[0])", "int(p.current.Value[0])", "character-literal-code"},
	{"C11", "code assigned before the increment", "Parser/Vistor.go", "\t\t\t\tv.idMaxValue++\n\t\t\t\tv.idsymtabl[key].Value = v.idMaxValue\n", "\t\t\t\tv.idsymtabl[key].Value = v.idMaxValue\n\t\t\t\tv.idMaxValue++\n", "pre-incremented-code"},
	{"C11", "literals of rules are not flushed on the break exit", "Parser/Parser.go", "out:\n\tif len(Tokdef.IdentifyList) != 0 {\n\t\t*toklst = append(*toklst, Tokdef)\n\t}\n\treturn res", "\treturn res\nout:\n\tif len(Tokdef.IdentifyList) != 0 {\n\t\t*toklst = append(*toklst, Tokdef)\n\t}\n\treturn res", "parseRule/literal-tokens-flushed"},
	{"C11", "benign: rename the counter field", "Parser/Vistor.go", "precIndex", "precLevel", ""},

	// ---- C12
	{"C12", "productivity accumulator overwritten", "Grammar/grammar.go", "every_CanTerm = every_CanTerm && every_sy.CanTerminate", "every_CanTerm = every_sy.CanTerminate", "productive-fixpoint"},
	{"C12", "undefined symbols are not rejected", "Parser/Vistor.go", "\t\t\t\t\tif v.idsymtabl[right.Element] == nil {\n\t\t\t\t\t\tpanic(\"It's not define symbol \")\n\t\t\t\t\t}\n", "", "undefined-symbol-check"},
	{"C12", "productivity test after the automaton", "Parser/Vistor.go", "\t\tif infLoop := g.CalculateCanTerminate(); len(infLoop) != 0 {\n\t\t\tg.PrintInfLoop(infLoop)\n\t\t\tpanic(\"Dected infinite loop\")\n\t\t}\n", "", "checks-dominate-construction"},
	{"C12", "SetNT leaves nonterminals productive", "Symbol/symbol.go", "\ts.CanTerminate = false\n", "", "Symbol.Symbol.CanTerminate"},
	{"C12", "benign: rename the accumulator", "Grammar/grammar.go", "every_CanTerm", "allProductive", ""},

	// ---- C13
	{"C13", "closed channel yields a kind-less token", "Parser/Lex.go", "return Token{Location: l.loc, Kind: EOF, EndAt: len(l.input)}", "return Token{Location: l.loc, EndAt: len(l.input)}", "parseDeclare"},
	{"C13", "unicode digits reach the ASCII number arm", "Parser/Lex.go", "case '0' <= r && r <= '9':", "case unicode.IsDigit(r):", "zero-consumption-cycle"},
	{"C13", "token list loop does not consume", "Parser/Parser.go", "\t\t} else {\n\t\t\tbreak\n\t\t}\n\t\tp.next()\n\t}\n\n\treturn &Tokdef", "\t\t} else {\n\t\t\tbreak\n\t\t}\n\t}\n\n\treturn &Tokdef", "R9 PROGRESS/Parser.(*parser).parseTokendef"},
	{"C13", "unterminated action keeps scanning", "Parser/Lex.go", "\t\tif r == eof {\n\t\t\tl.error(\"`{` and`}` not match\")\n\t\t\treturn nil\n\t\t}", "\t\tif r == eof && depth < 0 {\n\t\t\tl.error(\"`{` and`}` not match\")\n\t\t\treturn nil\n\t\t}", "ActionQuoteState"},
	{"C13", "lexer returns without closing the channel", "Parser/Lex.go", "\tfor state := rootState; state != nil; {\n\t\tstate = state(l)\n\t}\n", "\tfor state := rootState; state != nil; {\n\t\tstate = state(l)\n\t\tif l.end > len(l.input) {\n\t\t\treturn\n\t\t}\n\t}\n", "close-on-exit"},
	{"C13", "benign: reorder two independent tests in parseDeclare", "Parser/Parser.go", "\t\tif p.current.Is(UnionDirective) {\n\t\t\tUnionstr = p.current.Value\n\t\t}\n\t\tif p.current.Is(CodeQuote) {\n\t\t\tCodestr += p.current.Value\n\t\t}", "\t\tif p.current.Is(CodeQuote) {\n\t\t\tCodestr += p.current.Value\n\t\t}\n\t\tif p.current.Is(UnionDirective) {\n\t\t\tUnionstr = p.current.Value\n\t\t}", ""},

	// ---- C14
	{"C14", "successors registered in map order", "Grammar/grammar.go", "for _, goItem := range IC.GoTo {", "for _, goItem := range IC.GoToMap {", "ComputeGotoItemNoneRec"},
	{"C14", "const block in map order", "Builder/GoTemplBuilder.go", "\tfor _, name := range b.vnode.SortedNames() {\n\t\tidentifier := b.vnode.GetIdsymtabl()[name]", "\tfor _, identifier := range b.vnode.GetIdsymtabl() {", "buildConstPart"},
	{"C14", "names collected but not sorted", "Parser/Vistor.go", "\tsort.Strings(names)\n\treturn names", "\tsort.Sort(sort.StringSlice(names[:0]))\n\treturn names", "sortedNames"},
	{"C14", "timestamp in the header", "Builder/GoTemplBuilder.go", "\tb.CodeLast = b.vnode.GetCodeCopy()\n", "\tb.CodeLast = b.vnode.GetCodeCopy() + fmt.Sprint(\"// \", os.Getpid(), \"\\n\")\n", "no-time-rand-env"},
	{"C14", "benign: rename the sorted slice", "Parser/Vistor.go", "names", "keys", ""},

	// ---- C15
	{"C15", "ParserInit leaves the pointer at 0", "Builder/GoCodeTemplate.go", "\t}\n\tStackPointer = 1\n}", "\t}\n\tStackPointer = 0\n}", "go/global/packed/ParserInit"},
	{"C15", "object ParserInit sets the pointer to the stack length", "Builder/GoObjectTemplate.go", "\tc.Stackpos = 1\n", "\tc.Stackpos = len(c.StackSym)\n", "go/object/packed/ParserInit"},
	{"C15", "benign: unused package variable in object mode", "Builder/GoObjectTemplate.go", "var IsTrace bool = false\n", "var IsTrace bool = false\nvar parseCount = 0\n", ""},
	{"C15", "object mode shares a scratch entry", "Builder/GoObjectTemplate.go", "func (c *Context)ReduceFunc(reduceIndex int) *StateSym {\n\tdollarDolar := &StateSym{}", "var scratch StateSym\nfunc (c *Context)ReduceFunc(reduceIndex int) *StateSym {\n\tscratch = StateSym{}\n\tdollarDolar := &scratch", "no-shared-mutable-state"},
	{"C15", "global parser toggles IsTrace", "Builder/GoCodeTemplate.go", "func PopStateSym(num int) {\n\tStackPointer -= num\n}", "func PopStateSym(num int) {\n\tStackPointer -= num\n\tIsTrace = IsTrace && StackPointer > 0\n}", "go/global/packed/mutable-state-is-stack-and-pointer"},
	{"C15", "TS initialize keeps the old stack", "Builder/TsGenCode.go", "    StateSymStack = [new StateSym(0,1)];\n", "", "typescript/initialize"},

	// ---- C16
	{"C16", "closing brace lost in the object template", "Builder/GoObjectTemplate.go", "func (c *Context) PopStateSym(num int) {\n\tc.Stackpos -= num\n}", "func (c *Context) PopStateSym(num int) {\n\tc.Stackpos -= num\n", "skeleton go/object"},
	{"C16", "object template uses a global-mode identifier", "Builder/GoObjectTemplate.go", "\t\tif c.Stackpos == 0 {", "\t\tif StackPointer == 0 {", "skeleton go/object"},
	{"C16", "symbol names pasted between quotes again", "Builder/GoTemplBuilder.go", "conv = %q\\n\", sy.ID", "conv = \\\"%s\\\"\\n\", sy.ID", "in string context"},
	{"C16", "action echo no longer neutralised", "Builder/GoTemplBuilder.go", "strings.ReplaceAll(oneRule.ActionCode, \"*/\", \"* /\")", "oneRule.ActionCode", "ActionCode in comment context"},
	{"C16", "TS reduce function loses a brace", "Builder/TsGenCode.go", "\treturn dollarDolar;\n}\n`", "\treturn dollarDolar;\n`", "typescript/output"},
	{"C16", "argument-count slip in a fragment", "Builder/GoTemplBuilder.go", "\"\\t\"+pre+\"PopStateSym(%d)\\n\"", "\"\\t\"+pre+\"PopStateSym(%d, 0)\\n\"", "skeleton go/"},
	{"C16", "benign: blank line in the template", "Builder/GoCodeTemplate.go", "// Reduce function\n", "// Reduce function\n\n", ""},

	// ---- C17
	{"C17", "TraceReduce after the push", "Builder/GoCodeTemplate.go", "\t\t\t\tTraceReduce(reduceIndex, gotoState, TraceTranslate(lookAhead))\n\t\t\t\tPushStateSym(SymTy)", "\t\t\t\tPushStateSym(SymTy)\n\t\t\t\tTraceReduce(reduceIndex, gotoState, TraceTranslate(lookAhead))", "reduce-is-traced-with-its-own-rule"},
	{"C17", "trace text of rule i taken from another rule", "Builder/GoTemplBuilder.go", "\t\toneRule := b.vnode.GetRules(i - 1)\n\t\tleftPartString := \"use Reduce:\"", "\t\toneRule := b.vnode.GetRules(i % (len(b.vnode.G.ProductoinRules) - 1))\n\t\tleftPartString := \"use Reduce:\"", "ReduceTrace"},
	{"C17", "TranslateTrace skips nonterminals", "Builder/GoTemplBuilder.go", "\tfor _, sy := range b.vnode.G.Symbols {\n\t\tcaseCodes += fmt.Sprintf(\"\\tcase %d:\\n \\tconv = %q\\n\"", "\tfor _, sy := range b.vnode.G.Symbols {\n\t\tif sy.IsNonTerminator {\n\t\t\tcontinue\n\t\t}\n\t\tcaseCodes += fmt.Sprintf(\"\\tcase %d:\\n \\tconv = %q\\n\"", "TranslateTrace"},
	{"C17", "push stores before tracing", "Builder/GoObjectTemplate.go", "func (c *Context) PushStateSym(state *StateSym) {\n\tTraceShift(state)\n", "func (c *Context) PushStateSym(state *StateSym) {\n", "go/object/packed/PushStateSym-traces-first"},
	{"C17", "trace reports the old state", "Builder/GoCodeTemplate.go", "TraceReduce(reduceIndex, gotoState, TraceTranslate(lookAhead))", "TraceReduce(reduceIndex, s.Yystate, TraceTranslate(lookAhead))", "reduce-is-traced-with-its-own-rule"},
	{"C17", "benign: reword the shift line", "Builder/GoCodeTemplate.go", "\"Shift %s, push state %d\\n\"", "\"shift %s, push state %d\\n\"", ""},

	// ---- C18
	{"C18", "goto to state 0 not drawn", "LALR/LALRDraw.go", "d != lalr.GenAcceptCode() && d >= 0 {", "d != lalr.GenAcceptCode() && d > 0 {", "cell-decoding"},
	{"C18", "edges attach to differently named nodes", "Graph/Graph.go", "fromNode, toNode := fmt.Sprintf(\"state_%d\", from), fmt.Sprintf(\"state_%d\", to)", "fromNode, toNode := fmt.Sprintf(\"state%d\", from), fmt.Sprintf(\"state%d\", to)", "node-name-format"},
	{"C18", "edge labelled with the row's symbol", "LALR/LALRDraw.go", "utils.EscapeDotGraph(utils.RemoveTempName(lalr.G.Symbols[SymNum].Name)))\n\t\t\t\tgraphInst = graph.AddEdge", "utils.EscapeDotGraph(utils.RemoveTempName(lalr.G.Symbols[stateNum%len(lalr.G.Symbols)].Name)))\n\t\t\t\tgraphInst = graph.AddEdge", "cell-decoding"},
	{"C18", "listing omits the goto entries", "Grammar/grammar.go", "\tfor _, g := range IC.GoTo {\n\t\tfmt.Printf(\"at %s goto %d \\n\", g.Sym.Name, g.ItemCl)\n\t}\n", "", "ShowCloure"},
	{"C18", "benign: reword the accept colouring", "LALR/LALRDraw.go", "\"\\\"yellow:green\\\"\"", "\"\\\"green:yellow\\\"\"", ""},

	// ---- C19
	{"C19", "TS builds a fragment after creating the file", "Builder/TsGenCode.go", "\tb.buildTranslate()\n\t// Create file and write to it\n\tf, err := os.Create(file)\n\tif err != nil {\n\t\treturn fmt.Errorf(\"create file error: %s\", err)\n\t}\n\tf.WriteString(b.CodeHeader)", "\t// Create file and write to it\n\tf, err := os.Create(file)\n\tif err != nil {\n\t\treturn fmt.Errorf(\"create file error: %s\", err)\n\t}\n\tb.buildTranslate()\n\tf.WriteString(b.CodeHeader)", "TsGenFromString"},
	{"C19", "output created before parsing", "Builder/GoTemplBuilder.go", "\tw, err := parser.ParseAndBuild(input)\n\tif err != nil {\n\t\treturn fmt.Errorf(\"parse error: %s\", err)\n\t}\n\tb := NewTemplateBuilder(w)", "\tif _, err := os.Stat(file); err != nil {\n\t\tos.WriteFile(file, nil, 0o644)\n\t}\n\tw, err := parser.ParseAndBuild(input)\n\tif err != nil {\n\t\treturn fmt.Errorf(\"parse error: %s\", err)\n\t}\n\tb := NewTemplateBuilder(w)", "file-creating-calls"},
	{"C19", "epilogue no longer last in the template", "Builder/GoObjectTemplate.go", "// Code Last part\n{{.CodeLast}}`", "// Code Last part\n{{.CodeLast}}\n// end of generated file\n`", "last-node-is-epilogue"},
	{"C19", "parse error swallowed", "Builder/TsGenCode.go", "\tw, err := parser.ParseAndBuild(input)\n\tif err != nil {\n\t\treturn fmt.Errorf(\"parse error: %s\", err)\n\t}\n\tb := NewTsBuilder(w)", "\tw, err := parser.ParseAndBuild(input)\n\tif err != nil {\n\t\tfmt.Println(\"parse error:\", err)\n\t}\n\tb := NewTsBuilder(w)", "TsGenFromString/create-after-all-fallible-steps"},
	{"C19", "benign: swap two builder steps", "Builder/GoTemplBuilder.go", "\tb.buildStateFunc()\n\tb.buildReduceFunc()\n", "\tb.buildReduceFunc()\n\tb.buildStateFunc()\n", ""},

	// ---- benign probes that false-alarmed once (B3, B7–B12): behaviour-preserving rewrites a maintainer would make
	{"C06", "benign: hoist the symbol count in GenTable", "LALR/Table.go", "\t\t\trow := make([]int, len(lalr.G.Symbols))", "\t\t\tnSyms := len(lalr.G.Symbols)\n\t\t\trow := make([]int, nSyms)", ""},
	{"C01", "benign: hoist the symbol count in GenTable (C01)", "LALR/Table.go", "\t\t\trow := make([]int, len(lalr.G.Symbols))", "\t\t\tnSyms := len(lalr.G.Symbols)\n\t\t\trow := make([]int, nSyms)", ""},
	{"C09", "benign: CheckIsExist as a range loop", "LR/LR0.go", "\t\t\tfor i := 0; i < len(ic_in.Items); i++ {", "\t\t\tfor i := range ic_in.Items {", ""},
	{"C12", "benign: merged ifs in CalculateCanTerminate", "Grammar/grammar.go", "\t\t\tif every_CanTerm {\n\t\t\t\tif !(r.LeftPart.CanTerminate) {\n\t\t\t\t\tr.LeftPart.CanTerminate = true\n\t\t\t\t\tchange++\n\t\t\t\t}\n\t\t\t}", "\t\t\tif every_CanTerm && !r.LeftPart.CanTerminate {\n\t\t\t\tr.LeftPart.CanTerminate = true\n\t\t\t\tchange++\n\t\t\t}", ""},
	{"C10", "benign: reorder two disjoint cases in rootState", "Parser/Lex.go", "\tcase r == '|':\n\t\tl.emit(RuleOR)\n\tcase r == ':':\n\t\tl.emit(RuleDefine)", "\tcase r == ':':\n\t\tl.emit(RuleDefine)\n\tcase r == '|':\n\t\tl.emit(RuleOR)", ""},
	{"C13", "benign: reorder two disjoint cases in rootState (C13)", "Parser/Lex.go", "\tcase r == '|':\n\t\tl.emit(RuleOR)\n\tcase r == ':':\n\t\tl.emit(RuleDefine)", "\tcase r == ':':\n\t\tl.emit(RuleDefine)\n\tcase r == '|':\n\t\tl.emit(RuleOR)", ""},
	{"C03", "benign: swap two independent locals in BuildTrans", "LALR/LALR.go", "\t\t\t\tq := iC.Index\n\t\t\t\tt := uint(it.RuleIndex)", "\t\t\t\tt := uint(it.RuleIndex)\n\t\t\t\tq := iC.Index", ""},
	{"C03", "benign: Union breaks once the element is found", "LALR/Digraph.go", "\t\t\tif v == u {\n\t\t\t\tfound = true\n\t\t\t}", "\t\t\tif v == u {\n\t\t\t\tfound = true\n\t\t\t\tbreak\n\t\t\t}", ""},
	{"C03", "benign: seqenceCanEpsilon returns directly", "LALR/Utils.go", "\tret := true\n\tfor _, sy := range slice {\n\t\tif !sy.IsEpsilonClosure {\n\t\t\tret = false\n\t\t\tbreak\n\t\t}\n\t}\n\treturn ret", "\tfor _, sy := range slice {\n\t\tif !sy.IsEpsilonClosure {\n\t\t\treturn false\n\t\t}\n\t}\n\treturn true", ""},
}

// controlsAll lists the controls whose Old text must be replaced everywhere in the file (consistent renames).
var controlsAll = map[string]bool{
	"benign: rename payload slice in PackTable": true,
	"benign: rename the change counter":         true,
	"benign: rename the epilogue local":         true,
	"benign: rename the counter field":          true,
	"benign: rename the accumulator":            true,
	"benign: rename the sorted slice":           true,
}
